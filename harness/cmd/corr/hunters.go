package main

// Direct oracles on the real code that need no model: they compare the implementation with itself
// (across visit orders, across the two modes, across repeated executions).

import (
	z "github.com/Oudwins/zog"
	"github.com/Oudwins/zog/conf"
	"github.com/Oudwins/zog/zhttp"
	"time"

	"encoding/json"
	"errors"
	"fmt"
	"net/http"
	"reflect"
	"sort"
	"strings"

	"verif/harness/internal/eng"
	"verif/harness/internal/rng"
)

func projOf(r *eng.Result, id int, prop string) (string, error) {
	v, err := parseRes(r.Sx(id).String())
	if err != nil {
		return "", err
	}
	return v.project(prop), nil
}

func countStructArity(n *eng.Node) (max int, posts int) {
	if n == nil {
		return 0, 0
	}
	if n.Kind == "struct" {
		max = len(n.Fields)
	}
	posts = len(n.Posts)
	a, p := countStructArity(n.Elem)
	if a > max {
		max = a
	}
	posts += p
	for _, f := range n.Fields {
		a, p := countStructArity(f.S)
		if a > max {
			max = a
		}
		posts += p
	}
	return
}

func stripPosts(n *eng.Node) *eng.Node {
	if n == nil {
		return nil
	}
	c := *n
	c.Posts = nil
	c.Elem = stripPosts(n.Elem)
	c.Fields = nil
	for _, f := range n.Fields {
		f2 := f
		f2.S = stripPosts(f.S)
		c.Fields = append(c.Fields, f2)
	}
	return &c
}

func permuteFields(n *eng.Node, r *rng.R) *eng.Node {
	if n == nil {
		return nil
	}
	c := *n
	c.Elem = permuteFields(n.Elem, r)
	c.Fields = nil
	for _, f := range n.Fields {
		f2 := f
		f2.S = permuteFields(f.S, r)
		c.Fields = append(c.Fields, f2)
	}
	// insertion order of the schema map (the Go struct type keeps its field order)
	idx := make([]int, len(c.Fields))
	for i := range idx {
		idx[i] = i
	}
	r.Shuffle(len(idx), func(i, j int) { idx[i], idx[j] = idx[j], idx[i] })
	c.BuildOrder = idx
	return &c
}

// streamOrder (C09): every case is executed repeatedly (Go randomises the field visit order on every
// struct visit) and with permuted schema-map insertion orders; issue map minus $first and, on
// success, the destination must be identical on every run.
func streamOrder(seed uint64, n int, variant string) (*Summary, error) {
	sum := newSummary("order", seed)
	sum.Rule = "engine-stream cases with at least one struct of arity >= 2, each executed 12 times (6 with permuted schema-map insertion order); non-trivial = at least 2 distinct field visit orders were observed for the case; distinct = distinct case line; plus ~130 input SHAPES through the dyn schema (maps with interface / named keys whose keys of different dynamic type spell the same field, at top level and nested; every value of the dyn zoo), each call repeated 6-48 times and compared run to run; plus query / form requests whose parameter names carry index-like decorations denoting the same position"
	root := rng.New(seed)
	distinct := map[string]bool{}
	rerunProbe(sum, seed)
	sharedSentinelProbe(sum)
	for i := 0; i < n; i++ {
		g := &eng.Gen{R: root.Fork()}
		if variant == "noposts" || (variant == "" && i%2 == 0) {
			g.NoPosts = true
		}
		if i%4 == 3 {
			g.Pre = true // Preprocess schemas as fields: what a Preprocess node does must not depend on its siblings' order either
		}
		c := g.Case(i)
		ar, nposts := countStructArity(c.Schema)
		if ar < 2 {
			continue
		}
		sum.Evaluations++
		base := eng.Run(c)
		line := c.Line(base.Order)
		bp, err := projOf(base, c.ID, "C09")
		if err != nil {
			return nil, err
		}
		bm, _ := projOf(base, c.ID, "C09m")
		orders := map[string]bool{fmt.Sprint(base.Order): true}
		differs, differsM := "", ""
		for k := 0; k < 11 && differsM == ""; k++ {
			c2 := *c
			if k%2 == 1 {
				c2.Schema = permuteFields(c.Schema, g.R)
			}
			r := eng.Run(&c2)
			orders[fmt.Sprint(r.Order)] = true
			p, err := projOf(r, c.ID, "C09")
			if err != nil {
				return nil, err
			}
			pm, _ := projOf(r, c.ID, "C09m")
			if p != bp && differs == "" {
				differs = fmt.Sprintf("run A (visit order %v): %s\nrun B (visit order %v): %s", base.Order, bp, r.Order, p)
			}
			if pm != bm {
				differsM = fmt.Sprintf("run A (visit order %v): %s\nrun B (visit order %v): %s", base.Order, bm, r.Order, pm)
			}
		}
		sum.Hist[fmt.Sprintf("distinct_orders_%d", len(orders))]++
		sum.Hist[fmt.Sprintf("arity_%d", ar)]++
		if len(orders) >= 2 && !distinct[line] {
			distinct[line] = true
			sum.Nontrivial++
		}
		if len(sum.Samples) < 2 {
			sum.Samples = append(sum.Samples, line)
		}
		if differs != "" && differsM == "" {
			// known finding D25: several nodes file issues under one key (IssuePath / colliding keys); only
			// the order of the issues under that key varies
			sum.Known["C09"] = appendUnique(sum.Known["C09"], "D25 when several nodes file issues under one key (IssuePath redirect or colliding keys) the order of the issues under that key follows the field visit order")
			sum.Hist["known_D25_hits"]++
		}
		if differsM != "" {
			// known finding D19: the variation comes from PostTransform gating. It is attributed to D19
			// only if the same case with every PostTransform removed is order-independent.
			attributed := false
			if nposts > 0 {
				c3 := *c
				c3.Schema = stripPosts(c.Schema)
				b3 := eng.Run(&c3)
				p3, _ := projOf(b3, c.ID, "C09m")
				stable := true
				for k := 0; k < 12; k++ {
					r := eng.Run(&c3)
					p, _ := projOf(r, c.ID, "C09m")
					if p != p3 {
						stable = false
					}
				}
				attributed = stable
			}
			if attributed {
				sum.Known["C09"] = appendUnique(sum.Known["C09"], "D19 PostTransform gating makes the outcome depend on the field visit order (the same case without PostTransforms is order-independent)")
				sum.Hist["known_D19_hits"]++
			} else {
				sum.addViolation("C09", Mismatch{Case: line, What: "results differ between runs of the same call:\n" + differsM})
			}
		}
	}
	return sum, nil
}

func appendUnique(xs []string, s string) []string {
	for _, x := range xs {
		if x == s {
			return xs
		}
	}
	return append(xs, s)
}

// dToInput presents a destination value as the input it would be decoded from (a Go map for structs).
func dToInput(n *eng.Node, d eng.D) eng.V {
	switch n.Kind {
	case "prim":
		switch d.K {
		case "s":
			return eng.VStr(d.S)
		case "i":
			ik := map[string]string{"int": "int", "i32": "i32", "i64": "i64"}[d.NK]
			return eng.V{K: "i", IK: ik, I: d.I}
		case "f":
			if d.NK == "f32" {
				return eng.V{K: "f32", F: d.F}
			}
			return eng.VF64(d.F)
		case "b":
			return eng.VBool(d.B)
		case "t":
			return eng.VTime(d.T)
		}
	case "slice":
		out := eng.V{K: "l"}
		for _, x := range d.L {
			out.L = append(out.L, dToInput(n.Elem, x))
		}
		return out
	case "ptr":
		if d.P == nil {
			return eng.VNil()
		}
		return dToInput(n.Elem, *d.P)
	case "struct":
		out := eng.V{K: "o"}
		for i, f := range n.Fields {
			out.O = append(out.O, eng.KV{K: f.MapKey(), V: dToInput(f.S, d.FS[i].D)})
		}
		return out
	case "custom":
		return *d.CV
	}
	return eng.VNil()
}

// streamModes (C13): Validate(&v) vs Parse(toMap(v), &fresh) on fully populated values.
func streamModes(seed uint64, n int) (*Summary, error) {
	sum := newSummary("modes", seed)
	sum.Rule = "random schemas (no Preprocess) with fully populated destination values (no zero / blank leaf, no empty slice, no nil pointer); Validate in place vs Parse of the same value presented as the map it would be decoded from; non-trivial = at least one issue in either mode or a default/catch/PostTransform present; distinct = distinct case line"
	root := rng.New(seed)
	distinct := map[string]bool{}
	for i := 0; i < n; i++ {
		g := &eng.Gen{R: root.Fork(), Populated: true, NoExtra: true}
		schema := g.Node(0)
		val := g.DestValue(schema, 0)
		cv := &eng.Case{ID: i, Mode: "v", Schema: schema, Dest: val}
		cp := &eng.Case{ID: i, Mode: "p", Schema: schema, Dest: eng.ZeroD(schema), Input: dToInput(schema, val)}
		// sentinel extras must match: copy them into the fresh destination
		copyExtras(schema, &cp.Dest, val)
		rv := eng.Run(cv)
		rp := eng.Run(cp)
		// PostTransform gating makes results depend on the field visit order (known finding D19, decided
		// by C09); the two modes are compared on runs that visited the fields in the same order
		for try := 0; try < 60 && !reflect.DeepEqual(rv.Order, rp.Order); try++ {
			rp = eng.Run(cp)
		}
		if !reflect.DeepEqual(rv.Order, rp.Order) {
			sum.Hist["skipped_no_matching_order"]++
			continue
		}
		sum.Evaluations++
		pv, err := projOf(rv, i, "C13")
		if err != nil {
			return nil, err
		}
		pp, err := projOf(rp, i, "C13")
		if err != nil {
			return nil, err
		}
		line := cv.Line(rv.Order)
		md := 0
		nodes, catches, posts := nodeStats(schema, 0, sum.Hist, &md)
		_ = nodes
		if (len(rv.Issues) > 0 || len(rp.Issues) > 0 || catches > 0 || posts > 0) && !distinct[line] {
			distinct[line] = true
			sum.Nontrivial++
		}
		if len(rv.Issues) > 0 {
			sum.Hist["with_issues"]++
		} else {
			sum.Hist["clean"]++
		}
		if len(sum.Samples) < 2 {
			sum.Samples = append(sum.Samples, line)
		}
		if pv != pp {
			sum.addViolation("C13", Mismatch{Case: line, Impl: "validate: " + pv, Model: "parse:    " + pp, What: "Validate(&v) and Parse(toMap(v), &fresh) disagree"})
		}
	}
	return sum, nil
}

func copyExtras(n *eng.Node, dst *eng.D, src eng.D) {
	if n.Kind != "struct" {
		return
	}
	for i := range dst.FS {
		for _, e := range n.Extra {
			if dst.FS[i].Name == e {
				dst.FS[i].D = src.FS[i].D
			}
		}
	}
}

// streamAlias (C19): executions never modify the schema or the input; a second identical execution
// gives the same result; the destination does not share memory with the schema's defaults.
// d30Probe: the fixed scenario of known finding D30 (a CustomFunc schema of slice type hands the caller's
// slice through to the destination; an enclosing PostTransform that edits the destination in place edits
// the input). Returns true when the input was modified.
func d30Probe() bool {
	type D struct{ Tags []string }
	s := z.Struct(z.Schema{"tags": z.CustomFunc(func(p *[]string, ctx z.Ctx) bool { return true })}).PostTransform(func(ptr any, ctx z.Ctx) error {
		if d := ptr.(*D); len(d.Tags) > 0 {
			d.Tags[0] = "MUTATED"
		}
		return nil
	})
	in := map[string]any{"tags": []string{"a", "b"}}
	var d D
	s.Parse(in, &d)
	return in["tags"].([]string)[0] != "a"
}

func streamAlias(seed uint64, n int) (*Summary, error) {
	sum := newSummary("alias", seed)
	sum.Rule = "engine-stream cases with nested slice defaults and PostTransforms that modify the destination in place, one case in four the dedicated shape Validate(empty [][]T) on Slice(Slice(prim)).Default(nested); each is run twice on ONE schema object with deep snapshots of the input before/after, in every other case with the first result handed back through the Collect helpers in between; non-trivial = the schema has a default, catch or PostTransform; distinct = distinct case line"
	root := rng.New(seed)
	distinct := map[string]bool{}
	sum.Evaluations++
	if diff := sameNameTypesProbe(); diff != "" {
		sum.addViolation("C19", Mismatch{Case: "one Struct{name, email} schema object used with two handler-local destination types that are both called `form`", What: "the schema behaved differently after it had been used with another destination type (state kept on the schema)", Impl: diff})
	}
	if d30Probe() {
		sum.Known["C19"] = appendUnique(sum.Known["C19"], "D30 a CustomFunc schema of slice/map type stores the caller's input value itself in the destination, so a PostTransform editing the destination in place edits Parse's input")
		sum.Hist["known_D30_hits"]++
	}
	for i := 0; i < n; i++ {
		g := &eng.Gen{R: root.Fork(), NestedDefaults: true}
		var c *eng.Case
		if i%4 == 3 {
			c = g.AliasCase(i)
			sum.Hist["nested_default_cases"]++
		} else {
			c = g.Case(i)
		}
		sum.Evaluations++
		first, second, inputChanged := eng.RunTwice(c)
		line := c.Line(first.Order)
		md := 0
		_, catches, posts := nodeStats(c.Schema, 0, sum.Hist, &md)
		if (catches > 0 || posts > 0 || strings.Contains(line, "(dflt")) && !distinct[line] {
			distinct[line] = true
			sum.Nontrivial++
		}
		if len(sum.Samples) < 2 {
			sum.Samples = append(sum.Samples, line)
		}
		if inputChanged != "" {
			sum.addViolation("C19", Mismatch{Case: line, What: "Parse modified its input data: " + inputChanged})
			continue
		}
		// the second run may legitimately differ only through the field visit order (known finding D19);
		// compare on the order-insensitive projection and only when both runs saw the same orders
		if reflect.DeepEqual(first.Order, second.Order) {
			a, _ := projOf(first, i, "C19")
			b, _ := projOf(second, i, "C19")
			if a != b {
				sum.addViolation("C19", Mismatch{Case: line, Impl: "first:  " + a, Model: "second: " + b, What: "the same schema object behaved differently on its second use"})
				// ... which is also: what a call returns depends on an EARLIER call (and on whether its result was
				// handed back through the Collect helpers) — C07
				sum.addViolation("C07", Mismatch{Case: line, Impl: "first:  " + a, Model: "second: " + b, What: "the result of a call depends on an earlier call on the same schema object (every other case hands the first result back through the Collect helpers in between)"})
			}
			sum.Hist["same_order_pairs"]++
		}
	}
	// the enum slices handed to OneOf are shared by all schemas of the process and have spare capacity: an
	// execution that appends to one writes into memory it was only lent
	if w := eng.EnumsIntact(); w != "" {
		sum.addViolation("C19", Mismatch{Case: "every case of this stream (enum slices are shared by content, with spare capacity)", What: "an execution wrote into the enum slice given to OneOf: " + w})
	}
	return sum, nil
}

// rerunCanon: everything C09 speaks about for one call of the dyn schema — the issues (minus $first) and the destination.
func rerunCanon(m z.ZogIssueMap, d *dDest) string {
	keys := make([]string, 0, len(m))
	for k := range m {
		if k != "$first" {
			keys = append(keys, k)
		}
	}
	sort.Strings(keys)
	var sb strings.Builder
	for _, k := range keys {
		sb.WriteString(k + ":")
		for _, is := range m[k] {
			fmt.Fprintf(&sb, " {%s %q %s %q}", is.Code, is.Path, is.Dtype, is.Message)
		}
		sb.WriteString(";")
	}
	if d == nil {
		return sb.String()
	}
	js, _ := json.Marshal(d)
	return sb.String() + " dest=" + string(js)
}

// rerunProbe (C09): input SHAPES whose own key order could leak into the result — maps with interface or
// named keys, keys of different dynamic types spelling the same field, every value of the dyn zoo, at
// top level and nested. The same call is repeated; issues and destination must be identical every time.
func rerunProbe(sum *Summary, seed uint64) {
	schema := dynSchema()
	var inputs []any
	for _, f := range []string{"name", "age", "tags", "ok"} {
		good := map[string]any{"name": "alice", "age": 7, "tags": []any{"a"}, "ok": true}[f]
		bad := map[string]any{"name": "", "age": -3, "tags": []any{""}, "ok": "zz"}[f]
		inputs = append(inputs,
			map[any]any{f: good, dNamedStr(f): bad},
			map[any]any{dNamedStr(f): good, f: bad},
			map[dNamedStr]any{dNamedStr(f): good},
			map[string]any{"name": "bob", "inner": map[any]any{"city": "A", dNamedStr("city"): ""}},
			map[string]any{"name": "bob", "list": []any{map[any]any{"a": 1, dNamedStr("a"): "zz"}}},
		)
	}
	inputs = append(inputs,
		map[any]any{1: "a", "1": "b", int64(1): "c"},
		map[any]any{"name": "alice", dNamedStr("name"): "b", dStringer{"name"}: "c", nil: "d"},
		map[any]any{true: 1, "true": 2},
	)
	// requests whose parameter NAMES could be merged by a front end: index-like decorations that denote the
	// same position (k[1], k[01], k[+1]), with and without the plain k[] parameter; repeated run to run
	type rq struct {
		Tags []string `query:"tags[]" form:"tags[]"`
		Name string
	}
	rqSchema := z.Struct(z.Schema{"tags": z.Slice(z.String().Min(2)), "name": z.String().Min(2)})
	for qi, q := range []string{"tags[1]=a&tags[01]=bb", "tags[0]=x&tags[-0]=yy&tags[+0]=zzz", "tags[]=a&tags[0]=bb&tags[00]=c", "tags[2]=a&tags[1]=bb&tags[02]=c&tags[ 2]=dd",
		"name=a&name=bb&Name=ccc", "tags[a]=x&tags[A]=yy", "tags%5B1%5D=a&tags[1]=bb", "tags[1]=a&tags[1.0]=bb&tags[1e0]=ccc", "tags=a&tags[]=bb&tags[][]=c"} {
		for _, method := range []string{"GET", "POST"} {
			q, method := q, method
			func() {
				defer func() { recover() }()
				sum.Evaluations++
				first := ""
				for k := 0; k < 48; k++ {
					var req *http.Request
					if method == "GET" {
						req, _ = http.NewRequest("GET", "http://x/y?"+q, nil)
					} else {
						req, _ = http.NewRequest("POST", "http://x/y", strings.NewReader(q))
						req.Header.Set("Content-Type", "application/x-www-form-urlencoded")
					}
					var d rq
					m := rqSchema.Parse(zhttp.Request(req), &d)
					got := rerunCanon(m, nil) + fmt.Sprintf(" dest=%q %q", d.Tags, d.Name)
					if k == 0 {
						first = got
					} else if got != first {
						sum.addViolation("C09", Mismatch{Case: fmt.Sprintf("rerun request[%d] %s %s", qi, method, q), What: fmt.Sprintf("results differ between runs of the same call:\nrun 0: %s\nrun %d: %s", first, k, got)})
						return
					}
				}
				sum.Hist["rerun_requests_stable"]++
			}()
		}
	}
	inputs = append(inputs, dynZoo()...)
	for i, in := range inputs {
		runs := 6
		if i < 23 {
			runs = 48
		}
		var first string
		func() {
			defer func() { recover() }() // panics are C06's business (S-dyn)
			sum.Evaluations++
			for k := 0; k < runs; k++ {
				var d dDest
				got := rerunCanon(schema.Parse(in, &d), &d)
				if k == 0 {
					first = got
				} else if got != first {
					sum.addViolation("C09", Mismatch{Case: fmt.Sprintf("rerun input[%d] %T %v", i, in, in), What: fmt.Sprintf("results differ between runs of the same call:\nrun 0: %s\nrun %d: %s", first, k, got)})
					return
				}
			}
			sum.Hist["rerun_shapes_stable"]++
		}()
	}
}

// prePtrProbe (C12, C06): Preprocess in Validate mode on a POINTER-typed field — the callback gets a **T, its result
// is stored behind the field's pointer (allocating it when nil) and the wrapped Ptr schema validates that. A fixed
// scenario for the one branch of PreprocessSchema.validate that the case language does not reach.
func prePtrProbe(sum *Summary) {
	type rec struct {
		A *int
		B *string
	}
	var sawA, sawB int
	schema := z.Struct(z.Schema{
		"a": z.Preprocess(func(v **int, ctx z.Ctx) (int, error) {
			sawA++
			if *v == nil {
				return 7, nil
			}
			return **v + 1, nil
		}, z.Ptr(z.Int().GT(5))),
		"b": z.Preprocess(func(v **string, ctx z.Ctx) (string, error) {
			sawB++
			if *v == nil {
				return "", errors.New("nothing to trim")
			}
			return strings.TrimSpace(**v), nil
		}, z.Ptr(z.String().Min(2))),
	})
	three, padded := 3, "  x "
	for _, tc := range []struct {
		name string
		in   rec
		want string
	}{
		{"nil pointers", rec{}, `a=7 b=<nil> issues=b:[:nothing to trim]`},
		{"set pointers", rec{A: &three, B: &padded}, `a=4 b=x issues=a:[gt:] b:[min:]`},
	} {
		func() {
			defer func() {
				if r := recover(); r != nil {
					for _, pid := range []string{"C12", "C06"} {
						sum.addViolation(pid, Mismatch{Case: "prePtrProbe: " + tc.name, Impl: fmt.Sprint("panic: ", r), What: "Preprocess in Validate on a pointer-typed field panicked"})
					}
				}
			}()
			d := tc.in
			if d.A != nil {
				a, b := *d.A, *d.B
				d.A, d.B = &a, &b
			}
			sawA, sawB = 0, 0
			errs := schema.Validate(&d)
			var keys []string
			for k := range errs {
				if k != "$first" {
					keys = append(keys, k)
				}
			}
			sort.Strings(keys)
			var parts []string
			for _, k := range keys {
				var is []string
				for _, e := range errs[k] {
					m := ""
					if e.Code == "custom" || e.Code == "" {
						m = e.Message
					}
					is = append(is, e.Code+":"+m)
				}
				parts = append(parts, k+":["+strings.Join(is, ",")+"]")
			}
			show := func(p any) string {
				rv := reflect.ValueOf(p)
				if rv.IsNil() {
					return "<nil>"
				}
				return fmt.Sprint(rv.Elem().Interface())
			}
			got := fmt.Sprintf("a=%s b=%s issues=%s", show(d.A), show(d.B), strings.Join(parts, " "))
			if got != tc.want || sawA != 1 || sawB != 1 {
				sum.addViolation("C12", Mismatch{Case: "prePtrProbe: " + tc.name, Impl: fmt.Sprintf("%s (callbacks ran %d / %d times)", got, sawA, sawB), Model: tc.want + " (each callback once)",
					What: "Preprocess in Validate on a pointer-typed field: the callback's result is what the wrapped schema validates and what the field holds afterwards"})
			}
		}()
		sum.Evaluations++
	}
}

// likeProbe (C12, C03): schemas over NAMED primitive types (StringSchema[Role], NumberSchema[Count], BoolSchema[Flag]),
// built the way the repository's own *_custom_test.go files build them. A TestFunc is called with the VALUE of its
// node — a Role, not a string —, built-in tests decide the same predicates, and the destination holds the named
// type. Fixed scenarios for the generic instantiations the case language (which uses the unnamed types) never makes.
type likeRole string
type likeCount int64
type likeFlag bool

func likeProbe(sum *Summary) {
	roleSchema := func() *z.StringSchema[likeRole] {
		s := &z.StringSchema[likeRole]{}
		z.WithCoercer(func(x any) (any, error) {
			v, err := conf.DefaultCoercers.String(x)
			if err != nil {
				return nil, err
			}
			return likeRole(v.(string)), nil
		})(s)
		return s
	}
	countSchema := func() *z.NumberSchema[likeCount] {
		s := &z.NumberSchema[likeCount]{}
		z.WithCoercer(func(x any) (any, error) {
			v, err := conf.DefaultCoercers.Int(x)
			if err != nil {
				return nil, err
			}
			return likeCount(v.(int)), nil
		})(s)
		return s
	}
	flagSchema := func() *z.BoolSchema[likeFlag] {
		s := &z.BoolSchema[likeFlag]{}
		z.WithCoercer(func(x any) (any, error) {
			v, err := conf.DefaultCoercers.Bool(x)
			if err != nil {
				return nil, err
			}
			return likeFlag(v.(bool)), nil
		})(s)
		return s
	}
	var seen []string
	see := func(want string) z.BoolTFunc {
		return func(val any, ctx z.Ctx) bool {
			seen = append(seen, fmt.Sprintf("%T=%v", val, val))
			return fmt.Sprintf("%v", val) == want
		}
	}
	type rec struct {
		Role  likeRole
		Count likeCount
		Flag  likeFlag
		Roles []likeRole
		PRole *likeRole
	}
	schema := z.Struct(z.Schema{
		"role":  roleSchema().Required().TestFunc(see("admin"), z.IssueCode("known_role")).OneOf([]likeRole{"admin", "guest"}).Min(3),
		"count": countSchema().TestFunc(see("7"), z.IssueCode("seven")).GT(5).OneOf([]likeCount{7, 9}),
		"flag":  flagSchema().TestFunc(see("true"), z.IssueCode("set")).True(),
		"roles": z.Slice(roleSchema().TestFunc(see("admin"), z.IssueCode("known_role"))),
		"pRole": z.Ptr(roleSchema().TestFunc(see("guest"), z.IssueCode("is_guest")).HasPrefix("gu")),
	})
	// (struct fields are visited in map order: the observations are compared as a sorted list)
	wantSeen := "[likeCount=7 likeFlag=true likeRole=admin likeRole=admin likeRole=guest likeRole=root]"
	canonSeen := func() string {
		out := append([]string(nil), seen...)
		for i := range out {
			out[i] = out[i][strings.Index(out[i], ".")+1:]
		}
		sort.Strings(out)
		return fmt.Sprint(out)
	}
	issuesOf := func(m z.ZogIssueMap) string {
		var keys []string
		for k := range m {
			if k != "$first" {
				keys = append(keys, k)
			}
		}
		sort.Strings(keys)
		var parts []string
		for _, k := range keys {
			var cs []string
			for _, e := range m[k] {
				cs = append(cs, e.Code)
			}
			parts = append(parts, k+":"+strings.Join(cs, ","))
		}
		return strings.Join(parts, " ")
	}
	guest := likeRole("guest")
	for _, mode := range []string{"parse", "validate"} {
		func() {
			defer func() {
				if r := recover(); r != nil {
					for _, pid := range []string{"C12", "C06"} {
						sum.addViolation(pid, Mismatch{Case: "likeProbe: " + mode, Impl: fmt.Sprint("panic: ", r), What: "a schema over a named primitive type panicked"})
					}
				}
			}()
			seen = nil
			var d rec
			var errs z.ZogIssueMap
			if mode == "parse" {
				errs = schema.Parse(map[string]any{"role": "admin", "count": "7", "flag": "true", "roles": []any{"admin", "root"}, "pRole": "guest"}, &d)
			} else {
				d = rec{Role: "admin", Count: 7, Flag: true, Roles: []likeRole{"admin", "root"}, PRole: &guest}
				errs = schema.Validate(&d)
			}
			got := fmt.Sprintf("seen=%s issues=%s dest=%v/%v/%v/%v/%v", canonSeen(), issuesOf(errs), d.Role, d.Count, d.Flag, d.Roles, d.PRole != nil && *d.PRole == "guest")
			want := "seen=" + wantSeen + " issues=roles[1]:known_role dest=admin/7/true/[admin root]/true"
			if got != want {
				for _, pid := range []string{"C12", "C03"} {
					sum.addViolation(pid, Mismatch{Case: "likeProbe: " + mode, Impl: got, Model: want,
						What: "schemas over named primitive types: every TestFunc is called with the value of its node (of the named type), built-in tests decide their predicates, the destination holds the values"})
				}
			}
		}()
		sum.Evaluations++
	}
}

// structInputProbe (C03): a Go STRUCT as the input record — flat, with an embedded struct, with an embedded
// struct pointer, and the same inside a map — must give what the same record gives as a map[string]any: promoted
// fields are fields. Fixed scenarios (the case language's struct inputs have no embedded fields).
type probeAudit struct {
	ID    int
	Owner string
}
type probeFlat struct {
	ID    int
	Owner string
	Name  string
}
type probeEmb struct {
	probeAudit
	Name string
}
type ProbeAuditX struct {
	ID    int
	Owner string
}
type probeEmbPtr struct {
	*ProbeAuditX
	Name string
}

func structInputProbe(sum *Summary) {
	type dest struct {
		ID    int
		Owner string
		Name  string
	}
	schema := func() *z.StructSchema {
		return z.Struct(z.Schema{"ID": z.Int().GT(3), "Owner": z.String().Required(), "Name": z.String().Min(2)})
	}
	asMap := map[string]any{"ID": 7, "Owner": "ann", "Name": "main"}
	show := func(m z.ZogIssueMap, d dest) string {
		var keys []string
		for k, l := range m {
			if k != "$first" {
				for _, e := range l {
					keys = append(keys, k+":"+e.Code)
				}
			}
		}
		sort.Strings(keys)
		return fmt.Sprintf("%v %+v", keys, d)
	}
	var dm dest
	want := show(schema().Parse(asMap, &dm), dm)
	inputs := []struct {
		name string
		in   any
	}{
		{"flat struct", probeFlat{7, "ann", "main"}},
		{"pointer to flat struct", &probeFlat{7, "ann", "main"}},
		{"embedded struct (promoted fields)", probeEmb{probeAudit{7, "ann"}, "main"}},
		{"embedded struct pointer (promoted fields)", probeEmbPtr{&ProbeAuditX{7, "ann"}, "main"}},
	}
	for _, tc := range inputs {
		func() {
			defer func() {
				if r := recover(); r != nil {
					sum.addViolation("C06", Mismatch{Case: "structInputProbe: " + tc.name, Impl: fmt.Sprint("panic: ", r), What: "a struct input made Parse panic"})
				}
			}()
			var d dest
			got := show(schema().Parse(tc.in, &d), d)
			if got != want {
				sum.addViolation("C03", Mismatch{Case: "structInputProbe: " + tc.name, Impl: got, Model: want, What: "a Go struct given as the input record does not give what the same record gives as a map[string]any"})
			}
			// and as a nested record
			type outer struct{ Rec dest }
			var o outer
			var om outer
			nested := z.Struct(z.Schema{"Rec": schema()})
			wantN := show(nested.Parse(map[string]any{"Rec": asMap}, &om), om.Rec)
			gotN := show(nested.Parse(map[string]any{"Rec": tc.in}, &o), o.Rec)
			if gotN != wantN {
				sum.addViolation("C03", Mismatch{Case: "structInputProbe (nested): " + tc.name, Impl: gotN, Model: wantN, What: "a Go struct given as a nested input record does not give what the same record gives as a map[string]any"})
			}
		}()
		sum.Evaluations++
	}
	// a struct record whose fields are all ZERO is a record of present falsy values (C04: 0, false and the zero
	// time are present in Parse), exactly like the map holding the same zeros
	{
		type zrec struct {
			Retries int
			Verbose bool
			Ratio   float64
			At      time.Time
		}
		type zdest struct {
			Retries int
			Verbose bool
			Ratio   float64
			At      time.Time
		}
		zs := func() *z.StructSchema {
			return z.Struct(z.Schema{"Retries": z.Int().Required(), "Verbose": z.Bool().Default(true), "Ratio": z.Float64().Default(0.5), "At": z.Time().Required()})
		}
		showZ := func(m z.ZogIssueMap, d zdest) string {
			var keys []string
			for k, l := range m {
				if k != "$first" {
					for _, e := range l {
						keys = append(keys, k+":"+e.Code)
					}
				}
			}
			sort.Strings(keys)
			return fmt.Sprintf("%v %+v", keys, d)
		}
		var dm, ds, dn, dnm zdest
		wantZ := showZ(zs().Parse(map[string]any{"Retries": 0, "Verbose": false, "Ratio": 0.0, "At": time.Time{}}, &dm), dm)
		gotZ := showZ(zs().Parse(zrec{}, &ds), ds)
		if gotZ != wantZ {
			for _, pid := range []string{"C04", "C03"} {
				sum.addViolation(pid, Mismatch{Case: "structInputProbe: a struct record whose fields are all zero", Impl: gotZ, Model: wantZ, What: "a Go struct record of zero values is not read like the map holding the same zeros (0, false and the zero time are present values)"})
			}
		}
		type zouter struct{ Limits zdest }
		var on, onm zouter
		nz := z.Struct(z.Schema{"Limits": zs()})
		wantN := showZ(nz.Parse(map[string]any{"Limits": map[string]any{"Retries": 0, "Verbose": false, "Ratio": 0.0, "At": time.Time{}}}, &onm), onm.Limits)
		gotN := showZ(nz.Parse(map[string]any{"Limits": zrec{}}, &on), on.Limits)
		_, _ = dn, dnm
		if gotN != wantN {
			for _, pid := range []string{"C04", "C03"} {
				sum.addViolation(pid, Mismatch{Case: "structInputProbe (nested): a struct record whose fields are all zero", Impl: gotN, Model: wantN, What: "a nested Go struct record of zero values is not read like the map holding the same zeros"})
			}
		}
		sum.Evaluations += 2
	}
}

// sharedSentinelProbe (C09): ONE issue value (`var ErrDenied = &z.ZogIssue{Code: ...}`) returned by the callbacks of
// several sibling fields of different types, all failing in one execution: what is reported must not depend on
// which field the struct visits first. 48 executions of a fresh schema + sentinel each; all results equal.
func sharedSentinelProbe(sum *Summary) {
	type T struct {
		A string
		B int
		C time.Time
	}
	results := map[string]int{}
	for k := 0; k < 48; k++ {
		sent := &z.ZogIssue{Code: "denied"}
		deny := func(v any, ctx z.Ctx) (any, error) { return v, sent }
		schema := z.Struct(z.Schema{
			"a": z.Preprocess(deny, z.String()),
			"b": z.Preprocess(deny, z.Int()),
			"c": z.Preprocess(deny, z.Time()), // (no PostTransform here: whether one runs depends on the visit order, known finding D19)
		})
		var d T
		m := schema.Parse(map[string]any{"a": "x", "b": 1, "c": time.Unix(5, 0)}, &d)
		var parts []string
		for key, l := range m {
			if key == "$first" {
				continue
			}
			for _, e := range l {
				parts = append(parts, fmt.Sprintf("%s|%s|%s|%s|%s", key, e.Code, e.Path, e.Dtype, e.Message))
			}
		}
		sort.Strings(parts)
		results[strings.Join(parts, " ; ")]++
		sum.Evaluations++
	}
	if len(results) > 1 {
		var all []string
		for r, cnt := range results {
			all = append(all, fmt.Sprintf("%dx %s", cnt, r))
		}
		sort.Strings(all)
		sum.addViolation("C09", Mismatch{Case: "sharedSentinelProbe: Struct{a: Preprocess(deny, String()), b: Preprocess(deny, Int()), c: Preprocess(deny, Time())} where deny returns ONE shared *ZogIssue{Code: denied}", Impl: strings.Join(all, "\n"), What: "the issues of one fixed call differ from run to run (48 runs)"})
	}
}

// ctxLeakProbe (C05, C02): what one child of a struct does must not reach the siblings visited after it through the
// child context they share. Two fixed scenarios (each executed 60 times on a fresh schema, so that every field
// visit order occurs): a catching field next to a NESTED STRUCT with a PostTransform, in Validate; a Preprocess
// field whose function fails next to a Ptr field, in Parse.
func ctxLeakProbe(sum *Summary) {
	type inner struct{ Name string }
	type recA struct {
		A     string
		Inner inner
	}
	type recB struct {
		P string
		Q *string
	}
	for k := 0; k < 60; k++ {
		sa := z.Struct(z.Schema{
			"a": z.String().Min(5).Catch("caught"),
			"inner": z.Struct(z.Schema{"name": z.String()}).PostTransform(func(p any, ctx z.Ctx) error {
				v := p.(*inner)
				v.Name = strings.ToUpper(v.Name)
				return nil
			}),
		})
		d := recA{A: "ab", Inner: inner{Name: "bob"}}
		errs := sa.Validate(&d)
		if got := fmt.Sprintf("issues=%d a=%s inner=%s", len(errs), d.A, d.Inner.Name); got != "issues=0 a=caught inner=BOB" {
			sum.addViolation("C05", Mismatch{Case: "ctxLeakProbe: Validate of Struct{a: String().Min(5).Catch(caught), inner: Struct{name}.PostTransform(upper)} on {ab, {bob}}", Impl: got, Model: "issues=0 a=caught inner=BOB",
				What: "a caught failure of one field changed what a sibling node does (the nested struct's PostTransform did not run)"})
			break
		}
		sb := z.Struct(z.Schema{
			"p": z.Preprocess(func(v string, ctx z.Ctx) (string, error) { return v, errors.New("rejected") }, z.String()),
			"q": z.Ptr(z.String().Min(5)),
		})
		var b recB
		eb := sb.Parse(map[string]any{"p": "x", "q": "ab"}, &b)
		codes := func(key string) string {
			var cs []string
			for _, e := range eb[key] {
				cs = append(cs, e.Code)
			}
			return strings.Join(cs, ",")
		}
		got := fmt.Sprintf("p=[%s]x%d q=[%s] Q=%v", codes("p"), len(eb["p"]), codes("q"), b.Q != nil && *b.Q == "ab")
		if got != "p=[]x1 q=[min] Q=true" {
			for _, pid := range []string{"C02", "C05"} {
				sum.addViolation(pid, Mismatch{Case: "ctxLeakProbe: Parse of Struct{p: Preprocess(fails, String()), q: Ptr(String().Min(5))} on {p: x, q: ab}", Impl: got, Model: "p=[]x1 q=[min] Q=true",
					What: "a failing Preprocess field changed what a sibling node does (the pointer field lost its value or its issue)"})
			}
			break
		}
		sum.Evaluations += 2
	}
}
