package main

// The catalogue of built-in tests: every built-in test (and required / not_nil / coerce / decode
// failure) is built through the public API, forced to fail once, and the resulting issue is read.
// This is a run-time dump of the compiled library, so the entries are what the code produces now.

import (
	"fmt"
	"net/http"
	"net/http/httptest"
	"regexp"
	"sort"
	"strings"
	"time"

	z "github.com/Oudwins/zog"
	"github.com/Oudwins/zog/parsers/zjson"
	"github.com/Oudwins/zog/zhttp"
)

type catEntry struct {
	builder string
	dtype   string
	code    string
	keys    []string
	empty   bool // message produced by the default formatter was empty
}

func entryFrom(builder string, iss *z.ZogIssue) catEntry {
	keys := []string{}
	for k := range iss.Params {
		keys = append(keys, k)
	}
	sort.Strings(keys)
	return catEntry{builder: builder, dtype: iss.Dtype, code: iss.Code, keys: keys}
}

func buildCatalogueEntries() []catEntry {
	var out []catEntry
	addList := func(name string, l z.ZogIssueList) {
		if len(l) != 1 {
			out = append(out, catEntry{builder: name + fmt.Sprintf("!unexpected-%d-issues", len(l))})
			return
		}
		out = append(out, entryFrom(name, l[0]))
	}
	addMap := func(name string, m z.ZogIssueMap) {
		l := m["$first"]
		if len(l) != 1 {
			out = append(out, catEntry{builder: name + fmt.Sprintf("!unexpected-%d-issues", len(l))})
			return
		}
		out = append(out, entryFrom(name, l[0]))
	}
	var s string
	re := regexp.MustCompile("^z+$")
	// string
	addList("String.Required", z.String().Required().Parse("", &s))
	addList("String.Min", z.String().Min(5).Parse("a", &s))
	addList("String.Max", z.String().Max(1).Parse("abc", &s))
	addList("String.Len", z.String().Len(2).Parse("a", &s))
	addList("String.Email", z.String().Email().Parse("x", &s))
	addList("String.URL", z.String().URL().Parse("x", &s))
	addList("String.UUID", z.String().UUID().Parse("x", &s))
	addList("String.Match", z.String().Match(re).Parse("x", &s))
	addList("String.HasPrefix", z.String().HasPrefix("p").Parse("x", &s))
	addList("String.HasSuffix", z.String().HasSuffix("p").Parse("x", &s))
	addList("String.Contains", z.String().Contains("p").Parse("x", &s))
	addList("String.ContainsUpper", z.String().ContainsUpper().Parse("x", &s))
	addList("String.ContainsDigit", z.String().ContainsDigit().Parse("x", &s))
	addList("String.ContainsSpecial", z.String().ContainsSpecial().Parse("x", &s))
	addList("String.OneOf", z.String().OneOf([]string{"a"}).Parse("x", &s))
	addList("String.Not.Len", z.String().Not().Len(1).Parse("x", &s))
	addList("String.Not.Email", z.String().Not().Email().Parse("a@b.co", &s))
	addList("String.Not.URL", z.String().Not().URL().Parse("http://a.b", &s))
	addList("String.Not.UUID", z.String().Not().UUID().Parse("123e4567-e89b-12d3-a456-426614174000", &s))
	addList("String.Not.Match", z.String().Not().Match(re).Parse("zz", &s))
	addList("String.Not.HasPrefix", z.String().Not().HasPrefix("x").Parse("x", &s))
	addList("String.Not.HasSuffix", z.String().Not().HasSuffix("x").Parse("x", &s))
	addList("String.Not.Contains", z.String().Not().Contains("x").Parse("x", &s))
	addList("String.Not.ContainsUpper", z.String().Not().ContainsUpper().Parse("X", &s))
	addList("String.Not.ContainsDigit", z.String().Not().ContainsDigit().Parse("1", &s))
	addList("String.Not.ContainsSpecial", z.String().Not().ContainsSpecial().Parse("!", &s))
	addList("String.Not.OneOf", z.String().Not().OneOf([]string{"x"}).Parse("x", &s))
	// numbers
	var n int
	var f float64
	addList("Int.Required", z.Int().Required().Parse(nil, &n))
	addList("Int.Coerce", z.Int().Parse("zz", &n))
	addList("Int.EQ", z.Int().EQ(1).Parse(2, &n))
	addList("Int.LT", z.Int().LT(1).Parse(2, &n))
	addList("Int.LTE", z.Int().LTE(1).Parse(2, &n))
	addList("Int.GT", z.Int().GT(3).Parse(2, &n))
	addList("Int.GTE", z.Int().GTE(3).Parse(2, &n))
	addList("Int.OneOf", z.Int().OneOf([]int{1}).Parse(2, &n))
	addList("Float64.Required", z.Float64().Required().Parse(nil, &f))
	addList("Float64.Coerce", z.Float64().Parse("zz", &f))
	addList("Float64.EQ", z.Float64().EQ(1).Parse(2.0, &f))
	addList("Float64.LT", z.Float64().LT(1).Parse(2.0, &f))
	addList("Float64.LTE", z.Float64().LTE(1).Parse(2.0, &f))
	addList("Float64.GT", z.Float64().GT(3).Parse(2.0, &f))
	addList("Float64.GTE", z.Float64().GTE(3).Parse(2.0, &f))
	addList("Float64.OneOf", z.Float64().OneOf([]float64{1}).Parse(2.0, &f))
	// bool
	var bl bool
	addList("Bool.Required", z.Bool().Required().Parse(nil, &bl))
	addList("Bool.Coerce", z.Bool().Parse("zz", &bl))
	addList("Bool.True", z.Bool().True().Parse(false, &bl))
	addList("Bool.False", z.Bool().False().Parse(true, &bl))
	addList("Bool.EQ", z.Bool().EQ(true).Parse(false, &bl))
	// time
	var tm time.Time
	t0 := time.Unix(1000, 0).UTC()
	addList("Time.Required", z.Time().Required().Parse(nil, &tm))
	addList("Time.Coerce", z.Time().Parse("zz", &tm))
	addList("Time.After", z.Time().After(t0).Parse(t0, &tm))
	addList("Time.Before", z.Time().Before(t0).Parse(t0, &tm))
	addList("Time.EQ", z.Time().EQ(t0).Parse(t0.Add(time.Second), &tm))
	// slice
	var xs []int
	addMap("Slice.Required", z.Slice(z.Int()).Required().Parse(nil, &xs))
	addMap("Slice.Min", z.Slice(z.Int()).Min(3).Parse([]any{1}, &xs))
	addMap("Slice.Max", z.Slice(z.Int()).Max(0).Parse([]any{1}, &xs))
	addMap("Slice.Len", z.Slice(z.Int()).Len(3).Parse([]any{1}, &xs))
	addMap("Slice.Contains", z.Slice(z.Int()).Contains(7).Parse([]any{1}, &xs))
	// struct
	type S struct{ A int }
	var st S
	ss := z.Struct(z.Schema{"a": z.Int()})
	addMap("Struct.Coerce", ss.Parse("zz", &st))
	addMap("Struct.InvalidJSON", ss.Parse(zjson.Decode(strings.NewReader("{bad")), &st))
	req := httptest.NewRequest(http.MethodPost, "/?a=%zz", strings.NewReader("a=%zz"))
	req.Header.Set("Content-Type", "application/x-www-form-urlencoded")
	addMap("Struct.InvalidForm", ss.Parse(zhttp.Request(req), &st))
	// pointers: not_nil passes the inner type through
	var ps *string
	var pn *int
	var pb *bool
	var pt *time.Time
	var pxs *[]int
	var pst *S
	addMap("Ptr.NotNil.String", z.Ptr(z.String()).NotNil().Parse(nil, &ps))
	addMap("Ptr.NotNil.Int", z.Ptr(z.Int()).NotNil().Parse(nil, &pn))
	addMap("Ptr.NotNil.Bool", z.Ptr(z.Bool()).NotNil().Parse(nil, &pb))
	addMap("Ptr.NotNil.Time", z.Ptr(z.Time()).NotNil().Parse(nil, &pt))
	addMap("Ptr.NotNil.Slice", z.Ptr(z.Slice(z.Int())).NotNil().Parse(nil, &pxs))
	addMap("Ptr.NotNil.Struct", z.Ptr(ss).NotNil().Parse(nil, &pst))
	addMap("Ptr.InvalidJSON", z.Ptr(ss).Parse(zjson.Decode(strings.NewReader("{bad")), &pst))
	return out
}

// buildUserEntries: a USER-defined test (TestFunc with its own issue code) failing once on every schema type,
// and z.CustomFunc schemas (failing test, type mismatch). No language table can know these codes: the
// message must come from the type's fallback template.
func buildUserEntries() []catEntry {
	var out []catEntry
	first := func(name string, l z.ZogIssueList, m z.ZogIssueMap) {
		if m != nil {
			l = m["$first"]
		}
		if len(l) != 1 {
			out = append(out, catEntry{builder: name + fmt.Sprintf("!unexpected-%d-issues", len(l))})
			return
		}
		out = append(out, entryFrom(name, l[0]))
	}
	never := func(any, z.Ctx) bool { return false }
	code := z.IssueCode("user_defined_code")
	var s string
	var n int
	var f float64
	var b bool
	var tm time.Time
	var xs []int
	type S struct{ A int }
	var st S
	first("String.TestFunc", z.String().TestFunc(never, code).Parse("x", &s), nil)
	first("Int.TestFunc", z.Int().TestFunc(never, code).Parse(1, &n), nil)
	first("Float64.TestFunc", z.Float64().TestFunc(never, code).Parse(1.5, &f), nil)
	first("Bool.TestFunc", z.Bool().TestFunc(never, code).Parse(true, &b), nil)
	first("Time.TestFunc", z.Time().TestFunc(never, code).Parse(time.Unix(1000, 0), &tm), nil)
	first("Slice.TestFunc", nil, z.Slice(z.Int()).TestFunc(never, code).Parse([]any{1}, &xs))
	first("Struct.TestFunc", nil, z.Struct(z.Schema{"a": z.Int()}).TestFunc(never, code).Parse(map[string]any{"a": 1}, &st))
	cf := z.CustomFunc(func(p *int, ctx z.Ctx) bool { return false }, code)
	first("Custom.Test", cf.Parse(1, &n), nil)
	first("Custom.Coerce", cf.Parse("zz", &n), nil)
	first("Custom.InStruct", nil, z.Struct(z.Schema{"a": cf}).Parse(map[string]any{"a": 1}, &st))
	return out
}

func writeEntries(b *strings.Builder, name string, entries []catEntry) {
	fmt.Fprintf(b, "def %s : List CatEntry := [\n", name)
	for i, e := range entries {
		ks := make([]string, len(e.keys))
		for j, k := range e.keys {
			ks[j] = leanChars(k)
		}
		fmt.Fprintf(b, "  -- %s: dtype=%q code=%q params=%v\n", e.builder, e.dtype, e.code, e.keys)
		okS := "true"
		if strings.Contains(e.builder, "!") {
			okS = "false"
		}
		fmt.Fprintf(b, "  { builder := %q, ok := %s, dtype := %s, code := %s, paramKeys := [%s] }", e.builder, okS, leanChars(e.dtype), leanChars(e.code), strings.Join(ks, ", "))
		if i < len(entries)-1 {
			b.WriteString(",")
		}
		b.WriteString("\n")
	}
	b.WriteString("]\n\n")
}

func buildCatalogue() string {
	entries := buildCatalogueEntries()
	var b strings.Builder
	b.WriteString("-- GENERATED by harness/cmd/extract (run-time dump of every built-in test). Do not edit.\nnamespace Zog.Gen\n\n")
	b.WriteString("structure CatEntry where\n  builder : String\n  /-- the builder produced exactly one issue when forced to fail -/\n  ok : Bool\n  dtype : List Char\n  code : List Char\n  paramKeys : List (List Char)\n\n")
	writeEntries(&b, "catalogue", entries)
	b.WriteString("/-- user-defined tests (own issue code) on every schema type, and z.CustomFunc schemas -/\n")
	writeEntries(&b, "userCatalogue", buildUserEntries())
	// (plain code, negated code) of every negatable string test
	byName := map[string]string{}
	for _, e := range entries {
		byName[e.builder] = e.code
	}
	b.WriteString("/-- (method, code of String.<method>, code of String.Not().<method>) -/\ndef notPairs : List (List Char × List Char) := [\n")
	first := true
	for _, e := range entries {
		if strings.HasPrefix(e.builder, "String.Not.") {
			m := strings.TrimPrefix(e.builder, "String.Not.")
			if !first {
				b.WriteString(",\n")
			}
			first = false
			fmt.Fprintf(&b, "  -- %s: %q / %q\n  (%s, %s)", m, byName["String."+m], e.code, leanChars(byName["String."+m]), leanChars(e.code))
		}
	}
	b.WriteString("\n]\n\nend Zog.Gen\n")
	return b.String()
}
