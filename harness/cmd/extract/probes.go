package main

// Behavioural probes of the compiled working tree (a run-time dump, like the tables and the
// catalogue): each code-shape fact the Lean model depends on is ALSO established by running the
// real code on the smallest scenario in which the corresponding line matters. A fact is reported
// true iff its probe behaves as if the line were there; the go/ast reading of the same fact is kept
// next to it (a refactoring that keeps the behaviour but changes the shape does not flip the fact).

import (
	"errors"
	"fmt"
	"reflect"
	"strings"

	z "github.com/Oudwins/zog"
	"github.com/Oudwins/zog/parsers/zjson"
)

func noPanic(f func()) (ok bool) {
	defer func() {
		if r := recover(); r != nil {
			ok = false
		}
	}()
	f()
	return true
}

type probeResults struct {
	StructParseResetCatch, StructParseResetExit                           bool
	StructValResetCatch, StructValResetExit                               bool
	SliceParseResetCatch, SliceParseResetExit                             bool
	SliceValResetCatch, SliceValResetExit                                 bool
	PrimParsePostClearsCatch, PrimValPostClearsCatch                      bool
	KeyBufGuard, NilProvGuard, UnexportedGuard, EmptySegGuard, MapConvert bool
	UnwrapNilGuard, EmbeddedNilGuard, NilBodyGuard                        bool
	CloneCopies                                                           bool
	SliceDefaultDeep                                                      bool
}

type prEmbedded struct{ A string }
type prEmbedding struct {
	*prEmbedded
	B int
}
type prNamedMap map[string]any

func runProbes() probeResults {
	var r probeResults
	const rounds = 400 // struct field order is random: every order of 3 fields is met many times

	// --- struct loops -----------------------------------------------------------------------
	type S3 struct {
		A string
		B int
		C []int
	}
	// CanCatch: an earlier issue (a), then a primitive with Catch (b), then a non-primitive sibling
	// failing at its own level (c). c's issue must always be reported.
	sCatch := z.Struct(z.Schema{"a": z.String().Required(), "b": z.Int().Catch(1), "c": z.Slice(z.Int()).Required()})
	r.StructParseResetCatch = true
	r.StructValResetCatch = true
	for i := 0; i < rounds; i++ {
		var d S3
		if errs := sCatch.Parse(map[string]any{"b": 3}, &d); len(errs["c"]) != 1 || len(errs["a"]) != 1 {
			r.StructParseResetCatch = false
		}
		d2 := S3{B: 3}
		if errs := sCatch.Validate(&d2); len(errs["c"]) != 1 || len(errs["a"]) != 1 {
			r.StructValResetCatch = false
		}
	}
	// Exit: a primitive whose catch is triggered by a failing test (b), then a slice sibling whose
	// FIRST test passes and SECOND fails (c). The second test's issue must always be reported.
	sExit := z.Struct(z.Schema{"b": z.Int().GT(5).Catch(9), "c": z.Slice(z.Int()).Min(0).Max(0)})
	r.StructParseResetExit = true
	r.StructValResetExit = true
	for i := 0; i < rounds; i++ {
		var d S3
		if errs := sExit.Parse(map[string]any{"b": 1, "c": []any{1}}, &d); len(errs["c"]) != 1 {
			r.StructParseResetExit = false
		}
		d2 := S3{B: 1, C: []int{1}}
		if errs := sExit.Validate(&d2); len(errs["c"]) != 1 {
			r.StructValResetExit = false
		}
	}

	// --- slice loops (element order is fixed) --------------------------------------------------
	// Exit: one caught element must not make later elements take the catch value
	{
		var out []int
		errs := z.Slice(z.Int().GT(5).Catch(99)).Parse([]any{1, 10, 20}, &out)
		r.SliceParseResetExit = errs == nil && fmt.Sprint(out) == "[99 10 20]"
		out2 := []int{1, 10, 20}
		errs = z.Slice(z.Int().GT(5).Catch(99)).Validate(&out2)
		r.SliceValResetExit = errs == nil && fmt.Sprint(out2) == "[99 10 20]"
	}
	// CanCatch: the only element schema that shares the loop's context with a catching primitive is a
	// Preprocess wrapper: element 0 fails (issue), element 1 is fine (the catching primitive leaves
	// CanCatch set because an issue exists), element 2 fails again — its issue must be reported.
	{
		pre := z.Preprocess(func(s string, ctx z.Ctx) (int, error) {
			if s == "bad" {
				return 0, errors.New("bad element")
			}
			return 7, nil
		}, z.Int().Catch(1))
		var out []int
		errs := z.Slice(pre).Parse([]any{"bad", "ok", "bad"}, &out)
		r.SliceParseResetCatch = len(errs["[0]"]) == 1 && len(errs["[2]"]) == 1
		// Validate: Preprocess on *int elements
		preV := z.Preprocess(func(p *int, ctx z.Ctx) (int, error) {
			if *p < 0 {
				return 0, errors.New("bad element")
			}
			return *p, nil
		}, z.Int().Catch(1))
		out2 := []int{-1, 5, -1}
		errs = z.Slice(preV).Validate(&out2)
		r.SliceValResetCatch = len(errs["[0]"]) == 1 && len(errs["[2]"]) == 1
	}

	// --- primitive PostTransform block -----------------------------------------------------------
	{
		var n int
		errs := z.Int().Catch(3).PostTransform(func(p any, ctx z.Ctx) error { return errors.New("boom") }).Parse(5, &n)
		r.PrimParsePostClearsCatch = len(errs) == 1
		m := 5
		errs = z.Int().Catch(3).PostTransform(func(p any, ctx z.Ctx) error { return errors.New("boom") }).Validate(&m)
		r.PrimValPostClearsCatch = len(errs) == 1
	}

	// --- glue that could panic -----------------------------------------------------------------------
	type Long struct {
		Abcdefghijklmnopqrstuvwxyzabcdefghijklmn int
	}
	longKey := z.Struct(z.Schema{"abcdefghijklmnopqrstuvwxyzabcdefghijklmn": z.Int()})
	r.KeyBufGuard = noPanic(func() {
		var d Long
		longKey.Parse(map[string]any{"abcdefghijklmnopqrstuvwxyzabcdefghijklmn": 3}, &d)
		longKey.Validate(&d)
	})
	type One struct{ A string }
	one := z.Struct(z.Schema{"a": z.String()})
	r.NilProvGuard = noPanic(func() {
		var d One
		one.Parse(zjson.Decode(strings.NewReader("{}")), &d)
	})
	r.UnexportedGuard = noPanic(func() {
		var d One
		one.Parse(struct{ a string }{"x"}, &d)
	})
	type In struct {
		A string `zog:""`
	}
	type Nest struct{ In In }
	r.EmptySegGuard = noPanic(func() {
		var d Nest
		z.Struct(z.Schema{"in": z.Struct(z.Schema{"a": z.String().Min(5)})}).Parse(map[string]any{"in": map[string]any{"": "x"}}, &d)
	})
	r.MapConvert = noPanic(func() {
		var d One
		one.Parse(prNamedMap{"a": "x"}, &d)
		one.Parse(map[string]prNamedMap{"a": {}}, &d)
	})

	r.UnwrapNilGuard = noPanic(func() {
		var d One
		var np *string
		pass := func(v any, ctx z.Ctx) (any, error) { return v, nil }
		z.Struct(z.Schema{"a": z.Preprocess(pass, z.String())}).Parse(map[string]any{"a": np}, &d)
		z.Struct(z.Schema{"a": z.Preprocess(pass, z.String())}).Parse(map[string]any{"a": &np}, &d)
	})
	r.EmbeddedNilGuard = noPanic(func() {
		var d One
		one.Parse(prEmbedding{}, &d)
		z.Struct(z.Schema{"A": z.String()}).Parse(&prEmbedding{}, &d)
	})
	r.NilBodyGuard = noPanic(func() {
		var d One
		one.Parse(zjson.Decode(nil), &d)
	})

	// --- struct helpers: derived schemas own their tests / postTransforms arrays -------------------------
	{
		type AB struct{ A, B int }
		ran := map[string]int{}
		mk := func(id string) z.BoolTFunc { return func(v any, ctx z.Ctx) bool { ran[id]++; return true } }
		ok := true
		for _, usePosts := range []bool{false, true} {
			ran = map[string]int{}
			base := z.Struct(z.Schema{"a": z.Int(), "b": z.Int()})
			add := func(s *z.StructSchema, id string) {
				if usePosts {
					s.PostTransform(func(p any, ctx z.Ctx) error { ran[id]++; return nil })
				} else {
					s.TestFunc(mk(id))
				}
			}
			add(base, "t0")
			add(base, "t1")
			add(base, "t2")
			a := base.Pick("a")
			add(a, "tA")
			b := base.Omit("a")
			add(b, "tB")
			c := base.Extend(z.Schema{})
			add(c, "tC")
			var d AB
			a.Parse(map[string]any{"a": 1}, &d)
			if ran["tA"] != 1 || ran["tB"] != 0 || ran["tC"] != 0 {
				ok = false
			}
		}
		r.CloneCopies = ok
	}
	// --- Validate copies a nested slice Default deeply: an in-place write through the validated value
	//     must not reach the schema's default (second use reads the same default) ------------------------
	{
		var seen []string
		s := z.Slice(z.Slice(z.String())).Default([][]string{{"a", "b"}}).PostTransform(func(ptr any, ctx z.Ctx) error {
			v := ptr.(*[][]string)
			if len(*v) > 0 && len((*v)[0]) > 0 {
				seen = append(seen, (*v)[0][0])
				(*v)[0][0] = "MUTATED"
			}
			return nil
		})
		var a, b [][]string
		s.Validate(&a)
		s.Validate(&b)
		r.SliceDefaultDeep = len(seen) == 2 && seen[0] == "a" && seen[1] == "a"
	}
	// ... for every shape of default: pointers, structs holding structs that hold slices, pointers to such
	// structs. The default as the caller wrote it must read the same after two uses with an in-place write.
	{
		type Geo struct{ Tags []string }
		type Stop struct {
			Name string
			Geo  Geo
		}
		type PStop struct {
			Name string
			Geo  *Geo
		}
		type Cell struct{ P *int }
		geoSchema := func() *z.StructSchema { return z.Struct(z.Schema{"tags": z.Slice(z.String())}) }
		x1, x2, x3 := 1, 2, 3
		d1 := []*int{&x1}
		d2 := []Stop{{Name: "n", Geo: Geo{Tags: []string{"north"}}}}
		d3 := []PStop{{Name: "n", Geo: &Geo{Tags: []string{"north"}}}}
		d4 := []Cell{{P: &x2}}
		d5 := [][]*int{{&x3}}
		ok := true
		s1 := z.Slice(z.Ptr(z.Int())).Default(d1).PostTransform(func(ptr any, ctx z.Ctx) error { *(*ptr.(*[]*int))[0] = 99; return nil })
		s2 := z.Slice(z.Struct(z.Schema{"name": z.String(), "geo": geoSchema()})).Default(d2).PostTransform(func(ptr any, ctx z.Ctx) error { (*ptr.(*[]Stop))[0].Geo.Tags[0] = "MUTATED"; return nil })
		s3 := z.Slice(z.Struct(z.Schema{"name": z.String(), "geo": z.Ptr(geoSchema())})).Default(d3).PostTransform(func(ptr any, ctx z.Ctx) error { (*ptr.(*[]PStop))[0].Geo.Tags[0] = "MUTATED"; return nil })
		s4 := z.Slice(z.Struct(z.Schema{"p": z.Ptr(z.Int())})).Default(d4).PostTransform(func(ptr any, ctx z.Ctx) error { *(*ptr.(*[]Cell))[0].P = 99; return nil })
		s5 := z.Slice(z.Slice(z.Ptr(z.Int()))).Default(d5).PostTransform(func(ptr any, ctx z.Ctx) error { *(*ptr.(*[][]*int))[0][0] = 99; return nil })
		for round := 0; round < 2; round++ {
			var a1 []*int
			var a2 []Stop
			var a3 []PStop
			var a4 []Cell
			var a5 [][]*int
			ok = ok && noPanic(func() { s1.Validate(&a1); s2.Validate(&a2); s3.Validate(&a3); s4.Validate(&a4); s5.Validate(&a5) })
			ok = ok && x1 == 1 && x2 == 2 && x3 == 3 && d2[0].Geo.Tags[0] == "north" && d3[0].Geo.Tags[0] == "north"
			// and the validated value is the default's value with the write applied to the COPY
			ok = ok && len(a2) == 1 && a2[0].Geo.Tags[0] == "MUTATED" && len(a1) == 1 && *a1[0] == 99
		}
		// an EMPTY inner slice with spare capacity still owns memory: appending through the validated value must
		// not write into the default's backing array
		buf := make([]string, 0, 4)
		d6 := [][]string{buf}
		s6 := z.Slice(z.Slice(z.String())).Default(d6).PostTransform(func(ptr any, ctx z.Ctx) error {
			v := ptr.(*[][]string)
			(*v)[0] = append((*v)[0], "appended")
			return nil
		})
		var a6, b6 [][]string
		ok = ok && noPanic(func() { s6.Validate(&a6); s6.Validate(&b6) })
		ok = ok && buf[:1][0] == "" && len(a6) == 1 && len(a6[0]) == 1 && len(b6) == 1 && len(b6[0]) == 1
		// map-valued fields of default elements (http.Header-like): the copy must not share the VALUES either
		type Req struct {
			Name    string
			Headers map[string][]string
			Ptrs    map[string]*int
		}
		x7 := 7
		d7 := []Req{{Name: "n", Headers: map[string][]string{"Accept": {"json"}}, Ptrs: map[string]*int{"k": &x7}}}
		s7 := z.Slice(z.Struct(z.Schema{"name": z.String()})).Default(d7).PostTransform(func(ptr any, ctx z.Ctx) error {
			v := ptr.(*[]Req)
			(*v)[0].Headers["Accept"][0] = "MUTATED"
			*(*v)[0].Ptrs["k"] = 99
			(*v)[0].Headers["New"] = []string{"x"}
			return nil
		})
		var a7, b7 []Req
		ok = ok && noPanic(func() { s7.Validate(&a7); s7.Validate(&b7) })
		ok = ok && d7[0].Headers["Accept"][0] == "json" && x7 == 7 && len(d7[0].Headers) == 1 && len(b7) == 1 && b7[0].Headers["Accept"][0] == "MUTATED"
		// nil parts stay nil (a nil inner slice, a nil pointer element, a nil map, a nil interface), and what an
		// interface-typed field holds is copied like everything else
		type Box struct {
			Any any
			M   map[string]int
			L   []string
		}
		x8 := 8
		d8 := [][]string{nil, {"x"}}
		d9 := []*int{nil, &x8}
		anyInts := []int{1}
		d10 := []Box{{Any: anyInts}, {}}
		s8 := z.Slice(z.Slice(z.String())).Default(d8).PostTransform(func(ptr any, ctx z.Ctx) error { (*ptr.(*[][]string))[1][0] = "MUTATED"; return nil })
		s9 := z.Slice(z.Ptr(z.Int())).Default(d9).PostTransform(func(ptr any, ctx z.Ctx) error { *(*ptr.(*[]*int))[1] = 99; return nil })
		s10 := z.Slice(z.Struct(z.Schema{"l": z.Slice(z.String())})).Default(d10).PostTransform(func(ptr any, ctx z.Ctx) error {
			(*ptr.(*[]Box))[0].Any.([]int)[0] = 99
			return nil
		})
		var a8, b8 [][]string
		var a9, b9 []*int
		var a10, b10 []Box
		ok = ok && noPanic(func() {
			s8.Validate(&a8)
			s8.Validate(&b8)
			s9.Validate(&a9)
			s9.Validate(&b9)
			s10.Validate(&a10)
			s10.Validate(&b10)
		})
		ok = ok && d8[1][0] == "x" && x8 == 8 && anyInts[0] == 1
		ok = ok && len(b8) == 2 && b8[0] == nil && b8[1][0] == "MUTATED" && len(b9) == 2 && b9[0] == nil && *b9[1] == 99
		ok = ok && len(b10) == 2 && b10[0].Any.([]int)[0] == 99 && b10[0].M == nil && b10[1].Any == nil && b10[1].L == nil
		// and first of all the validated value IS the default (C04): equal to it, part by part
		{
			type Item struct {
				Name *string
				Qty  *int
				Any  any
				M    map[string][]int
			}
			nm, q := "widget", 3
			dA := []*int{&x8, &q}
			dB := []Item{{Name: &nm, Qty: &q, Any: []string{"k"}, M: map[string][]int{"a": {1, 2}}}}
			dC := [][]*int{{&q}, nil}
			sA := z.Slice(z.Ptr(z.Int()))
			sB := z.Slice(z.Struct(z.Schema{"name": z.Ptr(z.String()), "qty": z.Ptr(z.Int())}))
			sC := z.Slice(z.Slice(z.Ptr(z.Int())))
			var vA []*int
			var vB []Item
			var vC [][]*int
			ok = ok && noPanic(func() { sA.Default(dA).Validate(&vA); sB.Default(dB).Validate(&vB); sC.Default(dC).Validate(&vC) })
			ok = ok && reflect.DeepEqual(vA, dA) && reflect.DeepEqual(vB, dB) && reflect.DeepEqual(vC, dC)
		}
		r.SliceDefaultDeep = r.SliceDefaultDeep && ok
	}
	return r
}
