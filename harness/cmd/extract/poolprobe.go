package main

// Behavioural reading of the pooled constructors: an object of each pooled type is filled with
// sentinel values in EVERY field (reflection, unexported fields included), returned to its pool
// through the library's own Free, and taken out again by each constructor; a field counts as
// (re)assigned by that constructor iff the sentinel is gone. Field lists come from reflection.

import (
	"errors"
	"reflect"
	"unsafe"

	z "github.com/Oudwins/zog"
	p "github.com/Oudwins/zog/internals"
)

type poolProbe struct {
	Ctor             map[string][]string
	TypeFields       map[string][]string
	CollectSkipFirst bool
	Notes            []string
}

func settable(fv reflect.Value) reflect.Value {
	if fv.CanSet() {
		return fv
	}
	return reflect.NewAt(fv.Type(), unsafe.Pointer(fv.UnsafeAddr())).Elem()
}

var dirtyErr = errors.New("DIRTY")

// sentinel puts a recognisable non-zero value into fv and returns a function telling whether it is still there
func sentinel(fv reflect.Value) func() bool {
	fv = settable(fv)
	t := fv.Type()
	switch t.Kind() {
	case reflect.String:
		fv.SetString("DIRTY")
		return func() bool { return fv.String() == "DIRTY" }
	case reflect.Bool:
		fv.SetBool(true)
		return func() bool { return fv.Bool() }
	case reflect.Int, reflect.Int8, reflect.Int16, reflect.Int32, reflect.Int64:
		fv.SetInt(77)
		return func() bool { return fv.Int() == 77 }
	case reflect.Map:
		m := reflect.MakeMap(t)
		fv.Set(m)
		return func() bool { return !fv.IsNil() && fv.Pointer() == m.Pointer() }
	case reflect.Slice:
		s := reflect.MakeSlice(t, 1, 1)
		fv.Set(s)
		return func() bool { return !fv.IsNil() && fv.Pointer() == s.Pointer() }
	case reflect.Pointer:
		x := reflect.New(t.Elem())
		fv.Set(x)
		return func() bool { return !fv.IsNil() && fv.Pointer() == x.Pointer() }
	case reflect.Func:
		f := reflect.MakeFunc(t, func(args []reflect.Value) []reflect.Value {
			out := make([]reflect.Value, t.NumOut())
			for i := range out {
				out[i] = reflect.Zero(t.Out(i))
			}
			return out
		})
		fv.Set(f)
		return func() bool { return !fv.IsNil() && fv.Pointer() == f.Pointer() }
	case reflect.Interface:
		for _, cand := range []any{"DIRTY", dirtyErr, &p.ErrsList{}} {
			cv := reflect.ValueOf(cand)
			if cv.Type().AssignableTo(t) {
				fv.Set(cv)
				c := cand
				return func() bool {
					if fv.IsNil() {
						return false
					}
					cur := fv.Elem()
					if cur.Kind() == reflect.Pointer {
						return cur.Pointer() == reflect.ValueOf(c).Pointer()
					}
					return cur.Type() == reflect.TypeOf(c) && reflect.DeepEqual(cur.Interface(), c)
				}
			}
		}
	}
	return nil
}

// probeCtor: which fields of *T does `ctor` reset, when it receives a fully dirty recycled object?
func probeCtor[T any](free func(*T), ctor func() *T) (assigned []string, note string) {
	for attempt := 0; attempt < 200; attempt++ {
		o := new(T)
		rv := reflect.ValueOf(o).Elem()
		checks := make([]func() bool, rv.NumField())
		for i := 0; i < rv.NumField(); i++ {
			checks[i] = sentinel(rv.Field(i))
		}
		free(o)
		got := ctor()
		if got != o {
			continue // the pool handed out another object: try again
		}
		for i := 0; i < rv.NumField(); i++ {
			if checks[i] == nil {
				note += "no sentinel for field " + rv.Type().Field(i).Name + "; "
				continue
			}
			if !checks[i]() {
				assigned = append(assigned, rv.Type().Field(i).Name)
			}
		}
		return assigned, note
	}
	return nil, "the pool never handed the dirtied object back"
}

func fieldNames(t reflect.Type) []string {
	out := make([]string, t.NumField())
	for i := range out {
		out[i] = t.Field(i).Name
	}
	return out
}

func probePools() poolProbe {
	pp := poolProbe{Ctor: map[string][]string{}, TypeFields: map[string][]string{}}
	pp.TypeFields["ErrsList"] = fieldNames(reflect.TypeOf(p.ErrsList{}))
	pp.TypeFields["ErrsMap"] = fieldNames(reflect.TypeOf(p.ErrsMap{}))
	pp.TypeFields["ExecCtx"] = fieldNames(reflect.TypeOf(p.ExecCtx{}))
	pp.TypeFields["SchemaCtx"] = fieldNames(reflect.TypeOf(p.SchemaCtx{}))
	pp.TypeFields["ZogIssue"] = fieldNames(reflect.TypeOf(p.ZogIssue{}))
	rec := func(name string, a []string, note string) {
		pp.Ctor[name] = a
		if note != "" {
			pp.Notes = append(pp.Notes, name+": "+note)
		}
	}
	fm := func(e *p.ZogIssue, c p.Ctx) {}
	// built through the library's own constructors, so that this probe does not depend on how the pooled
	// types are laid out
	errs := p.NewErrsList()
	ec := p.NewExecCtx(errs, fm)
	pb := p.NewPathBuilder()
	x := 0
	sc := ec.NewSchemaCtx("d", &x, pb, "string")
	test := &p.Test{IssueCode: "tc", Params: map[string]any{"k": 1}}

	// an issue reaches the pool through the library's own FreeIssue OR through the public Collect helpers: a field
	// counts as re-initialised only if the constructor resets it after EITHER way back
	both := func(ctor func() *p.ZogIssue) ([]string, string) {
		a1, n1 := probeCtor(p.FreeIssue, ctor)
		a2, n2 := probeCtor(func(o *p.ZogIssue) { z.Issues.Collect(o) }, ctor)
		in2 := map[string]bool{}
		for _, f := range a2 {
			in2[f] = true
		}
		var out []string
		for _, f := range a1 {
			if in2[f] {
				out = append(out, f)
			}
		}
		return out, n1 + n2
	}
	a, n := both(p.NewZogIssue)
	rec("NewZogIssue", a, n)
	a, n = both(func() *p.ZogIssue { return sc.IssueFromTest(test, "v") })
	rec("IssueFromTest", a, n)
	a, n = both(func() *p.ZogIssue { return sc.IssueFromCoerce(errors.New("fresh")) })
	rec("IssueFromCoerce", a, n)
	a, n = probeCtor(func(o *p.ErrsList) { o.Free() }, p.NewErrsList)
	rec("NewErrsList", a, n)
	a, n = probeCtor(func(o *p.ErrsMap) { o.Free() }, p.NewErrsMap)
	rec("NewErrsMap", a, n)
	a, n = probeCtor(func(o *p.ExecCtx) { o.Free() }, func() *p.ExecCtx { return p.NewExecCtx(errs, fm) })
	rec("NewExecCtx", a, n)
	a, n = probeCtor(func(o *p.SchemaCtx) { o.Free() }, func() *p.SchemaCtx { return ec.NewSchemaCtx("fresh", &x, pb, "number") })
	rec("NewSchemaCtx", a, n)
	a, n = probeCtor(func(o *p.SchemaCtx) { o.Free() }, func() *p.SchemaCtx { return ec.NewValidateSchemaCtx(&x, pb, "number") })
	rec("NewValidateSchemaCtx", a, n)

	// PathBuilder: a recycled builder that still holds segments must come back empty and usable
	pbOK := false
	for attempt := 0; attempt < 200 && !pbOK; attempt++ {
		d := p.NewPathBuilder()
		s1, s2 := "x", "[3]"
		d.Push(&s1).Push(&s2)
		d.Free()
		got := p.NewPathBuilder()
		if got != d {
			continue
		}
		k := "k"
		if got.String() == "" && got.Push(&k).String() == "k" {
			pbOK = true
		}
		break
	}
	if pbOK {
		pp.Ctor["NewPathBuilder"] = []string{"reslice[:1]"}
	} else {
		pp.Ctor["NewPathBuilder"] = []string{}
	}

	// CollectMap: after collecting a map whose first issue is also filed under $first, no issue object
	// may sit in the pool twice (two later acquisitions would share it)
	pp.CollectSkipFirst = true
	for round := 0; round < 20; round++ {
		type S struct{ A, B string }
		var d S
		m := z.Struct(z.Schema{"a": z.String().Required(), "b": z.String().Required()}).Parse(map[string]any{}, &d)
		if len(m) < 3 {
			pp.Notes = append(pp.Notes, "CollectMap probe: the parse did not produce $first + two paths")
			pp.CollectSkipFirst = false
			break
		}
		orig := map[*p.ZogIssue]bool{}
		for _, l := range m {
			for _, i := range l {
				orig[i] = true
			}
		}
		z.Issues.CollectMap(m)
		seen := map[*p.ZogIssue]int{}
		for k := 0; k < len(orig)+3; k++ {
			seen[p.ZogIssuePool.Get().(*p.ZogIssue)]++
		}
		for i := range orig {
			if seen[i] > 1 {
				pp.CollectSkipFirst = false
			}
		}
	}
	return pp
}
