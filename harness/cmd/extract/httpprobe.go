package main

// Behavioural reading of zhttp.Request's dispatch: the three configurable parsers are replaced by
// markers, a grid of (method, Content-Type) requests is sent through the real Request, and the
// method / media-type tables of the Lean model are read off the observed choices. The grid is a
// fixed set plus every string literal of zhttp's non-test sources (so a new case arm is probed).

import (
	"go/ast"
	"go/token"
	"net/http"
	"sort"
	"strings"

	p "github.com/Oudwins/zog/internals"
	"github.com/Oudwins/zog/zhttp"
)

type httpProbe struct {
	Methods [][2]string
	Types   [][2]string
	Default string
	CutSep  string
	Uniform bool // every method without a table entry dispatches on the media type exactly like POST
}

func isUpperWord(s string) bool {
	if s == "" {
		return false
	}
	for _, c := range s {
		if c < 'A' || c > 'Z' {
			return false
		}
	}
	return true
}

func probeHTTP(literals []string) httpProbe {
	saved := zhttp.Config.Parsers
	defer func() { zhttp.Config.Parsers = saved }()
	var chosen string
	mark := func(name string) zhttp.ParserFunc {
		return func(r *http.Request) p.DpFactory {
			chosen = name
			return func() (p.DataProvider, *p.ZogIssue) { return nil, nil }
		}
	}
	zhttp.Config.Parsers.JSON, zhttp.Config.Parsers.Form, zhttp.Config.Parsers.Query = mark("JSON"), mark("Form"), mark("Query")
	outcome := func(method, ct string) string {
		req, err := http.NewRequest(method, "http://x/?src=query", strings.NewReader("src=form"))
		if err != nil {
			return "badreq"
		}
		if ct != "" {
			req.Header.Set("Content-Type", ct)
		}
		chosen = "none"
		func() {
			defer func() {
				if r := recover(); r != nil {
					chosen = "panic"
				}
			}()
			zhttp.Request(req)
		}()
		return chosen
	}
	methods := []string{"GET", "HEAD", "POST", "PUT", "PATCH", "DELETE", "OPTIONS", "CONNECT", "TRACE", "get", "Head"}
	types := []string{"application/json", "application/x-www-form-urlencoded", "", "text/plain", "multipart/form-data", "application/xml", "text/json",
		"APPLICATION/JSON", "application/json5", "application/x-www-form-urlencoded2", " application/json", "application/json "}
	var extraM, extraT []string
	for _, l := range literals {
		if isUpperWord(l) {
			extraM = append(extraM, l)
		} else if strings.Contains(l, "/") && !strings.ContainsAny(l, " ;") {
			extraT = append(extraT, l)
		}
	}
	sort.Strings(extraM)
	sort.Strings(extraT)
	add := func(xs []string, more []string) []string {
		seen := map[string]bool{}
		for _, x := range xs {
			seen[x] = true
		}
		for _, m := range more {
			if !seen[m] {
				seen[m] = true
				xs = append(xs, m)
			}
		}
		return xs
	}
	methods, types = add(methods, extraM), add(types, extraT)

	var hp httpProbe
	var bodyMethods []string
	for _, m := range methods {
		first, same := outcome(m, types[0]), true
		for _, ct := range types[1:] {
			if outcome(m, ct) != first {
				same = false
			}
		}
		if same {
			hp.Methods = append(hp.Methods, [2]string{m, first})
		} else {
			bodyMethods = append(bodyMethods, m)
		}
	}
	if len(bodyMethods) == 0 {
		return hp
	}
	ref := bodyMethods[0]
	hp.Default = outcome(ref, "zz/unknown")
	for _, ct := range types {
		if ct == "" {
			continue
		}
		if s := outcome(ref, ct); s != hp.Default {
			hp.Types = append(hp.Types, [2]string{ct, s})
		}
	}
	hp.Uniform = true
	for _, m := range bodyMethods[1:] {
		for _, ct := range append(types, "zz/unknown") {
			if outcome(m, ct) != outcome(ref, ct) {
				hp.Uniform = false
			}
		}
	}
	// a method with a table entry different from the default would also be a "body method" for the model; the
	// model's method table only ever maps to a parser, which is what was observed
	// the separator: parameters after ';' are ignored, nothing else is a separator
	if len(hp.Types) > 0 {
		t := hp.Types[0]
		if outcome(ref, t[0]+";charset=utf-8") == t[1] && outcome(ref, t[0]+"; q=1") == t[1] &&
			outcome(ref, t[0]+",x") == hp.Default && outcome(ref, t[0]+" x") == hp.Default {
			hp.CutSep = ";"
		}
	}
	return hp
}

func stringLiterals(files []*ast.File) []string {
	var out []string
	seen := map[string]bool{}
	for _, f := range files {
		ast.Inspect(f, func(n ast.Node) bool {
			if bl, ok := n.(*ast.BasicLit); ok && bl.Kind == token.STRING {
				v := strings.Trim(bl.Value, "\"`")
				if !seen[v] {
					seen[v] = true
					out = append(out, v)
				}
			}
			return true
		})
	}
	return out
}
