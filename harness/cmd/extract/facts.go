package main

// Code-shape facts read from the working tree with go/ast. Every fact has a hand-written shape
// expectation; a shape that is not recognised yields `false`/empty, which no theorem accepts
// (the proof obligation `facts_ok` then fails and the check goes on to search for a failing input).

import (
	"encoding/json"
	"fmt"
	"go/ast"
	"go/parser"
	"go/token"
	"os"
	"path/filepath"
	"reflect"
	"sort"
	"strings"
)

type Facts struct {
	Probes probeResults               // behavioural probes of the compiled tree (final value of the facts below)
	AST    map[string]bool            // what the go/ast shape reading says about the same facts
	Loop   map[string]map[string]bool // loop name -> {resetCatch, resetExit}
	// fields assigned before the child call in each loop (for the evidence / replay files)
	LoopAssigns              map[string][]string
	PrimParsePostClearsCatch bool
	PrimValPostClearsCatch   bool
	// pooled constructors: constructor -> fields it assigns
	Ctor map[string][]string
	// fields of each pooled struct type
	TypeFields map[string][]string
	// writes to receiver / package-level variables inside process/validate/Parse/Validate
	Writes        []string
	ClosureWrites []string
	// CtxStrayWrites: assignments to a SchemaCtx field that the per-child loops do not manage
	CtxStrayWrites []string
	// HelperOperandWrites: field / element writes through the receiver or a parameter inside struct_helpers.go
	HelperOperandWrites []string
	// ExecCtxFormatters: the distinct second arguments of the NewExecCtx calls (the formatter a top-level
	// entry point starts from); ExecCtxSites: how many calls there are
	ExecCtxFormatters []string
	ExecCtxSites      int
	// argument handed to struct-level tests / posttransforms in struct.validate
	StructValidateTestArg                                   string
	StructValidatePostArg                                   string
	StructProcessPostWrap                                   string
	DynKeyBufGuard                                          bool
	DynUnwrapNilGuard, DynEmbeddedNilGuard, DynNilBodyGuard bool
	DynNilProvGuard                                         bool
	DynUnexportedGuard                                      bool
	DynEmptySegGuard                                        bool
	DynMapConvert                                           bool
	CollectMapSkipsFirst                                    bool
	// HelpersReadBeforeFree: in Issues.Sanitize{Map,List}AndCollect the messages are read (Sanitize*) before the
	// issues are handed to the pool (Collect*); HelpersShape: what was read off the two function bodies
	HelpersReadBeforeFree bool
	HelpersShape          string
	HTTPMethods           [][2]string // method -> parser
	HTTPTypes             [][2]string // media type -> parser
	HTTPDefault           string
	HTTPCutSep            string
	HTTPUniform           bool
	HTTPAst               string // the go/ast reading of the same tables (kept for the replay file)
	PoolAst               string
	PoolNotes             []string
	CloneCopiesTests      bool
	CloneCopiesPosts      bool
	KeyBufGuarded         bool
	NilProvGuard          bool
	PtrRefreshesSubData   bool
}

func parseFile(fset *token.FileSet, path string) (*ast.File, error) {
	return parser.ParseFile(fset, path, nil, parser.ParseComments)
}

func recvName(fd *ast.FuncDecl) string {
	if fd.Recv == nil || len(fd.Recv.List) == 0 {
		return ""
	}
	t := fd.Recv.List[0].Type
	if s, ok := t.(*ast.StarExpr); ok {
		t = s.X
	}
	switch x := t.(type) {
	case *ast.Ident:
		return x.Name
	case *ast.IndexExpr:
		if id, ok := x.X.(*ast.Ident); ok {
			return id.Name
		}
	case *ast.IndexListExpr:
		if id, ok := x.X.(*ast.Ident); ok {
			return id.Name
		}
	}
	return ""
}

func findFunc(f *ast.File, recv, name string) *ast.FuncDecl {
	for _, d := range f.Decls {
		fd, ok := d.(*ast.FuncDecl)
		if !ok || fd.Name.Name != name {
			continue
		}
		if recvName(fd) == recv {
			return fd
		}
	}
	return nil
}

func exprString(e ast.Expr) string {
	switch x := e.(type) {
	case *ast.Ident:
		return x.Name
	case *ast.SelectorExpr:
		return exprString(x.X) + "." + x.Sel.Name
	case *ast.StarExpr:
		return "*" + exprString(x.X)
	case *ast.CallExpr:
		return exprString(x.Fun) + "(...)"
	case *ast.BasicLit:
		return x.Value
	case *ast.IndexExpr:
		return exprString(x.X) + "[...]"
	case *ast.UnaryExpr:
		return x.Op.String() + exprString(x.X)
	case *ast.ParenExpr:
		return "(" + exprString(x.X) + ")"
	case *ast.TypeAssertExpr:
		return exprString(x.X) + ".(T)"
	case *ast.SliceExpr:
		return exprString(x.X) + "[:]"
	}
	return fmt.Sprintf("%T", e)
}

// childCall reports whether stmt is `X.process(ctx)` / `X.validate(ctx)` and returns the ctx identifier.
func childCall(s ast.Stmt) (string, bool) {
	es, ok := s.(*ast.ExprStmt)
	if !ok {
		return "", false
	}
	call, ok := es.X.(*ast.CallExpr)
	if !ok || len(call.Args) != 1 {
		return "", false
	}
	sel, ok := call.Fun.(*ast.SelectorExpr)
	if !ok || (sel.Sel.Name != "process" && sel.Sel.Name != "validate") {
		return "", false
	}
	id, ok := call.Args[0].(*ast.Ident)
	if !ok {
		return "", false
	}
	return id.Name, true
}

// loopFacts finds the loop of fd whose body calls a child's process/validate and inspects the
// statements of the body that precede the call.
func loopFacts(fd *ast.FuncDecl) (resetCatch, resetExit bool, assigns []string, found bool) {
	if fd == nil {
		return
	}
	ast.Inspect(fd.Body, func(n ast.Node) bool {
		var body *ast.BlockStmt
		switch l := n.(type) {
		case *ast.ForStmt:
			body = l.Body
		case *ast.RangeStmt:
			body = l.Body
		default:
			return true
		}
		for i, s := range body.List {
			ctxName, ok := childCall(s)
			if !ok {
				continue
			}
			found = true
			for _, p := range body.List[:i] {
				as, ok := p.(*ast.AssignStmt)
				if !ok || len(as.Lhs) != 1 || len(as.Rhs) != 1 {
					continue
				}
				// a fresh context per iteration resets everything
				if id, ok := as.Lhs[0].(*ast.Ident); ok && id.Name == ctxName && as.Tok == token.DEFINE {
					if strings.Contains(exprString(as.Rhs[0]), "SchemaCtx(...)") {
						resetCatch, resetExit = true, true
						assigns = append(assigns, ctxName+" := "+exprString(as.Rhs[0]))
					}
					continue
				}
				sel, ok := as.Lhs[0].(*ast.SelectorExpr)
				if !ok {
					continue
				}
				if id, ok := sel.X.(*ast.Ident); !ok || id.Name != ctxName {
					continue
				}
				assigns = append(assigns, sel.Sel.Name+"="+exprString(as.Rhs[0]))
				if rid, ok := as.Rhs[0].(*ast.Ident); ok && rid.Name == "false" {
					if sel.Sel.Name == "CanCatch" {
						resetCatch = true
					}
					if sel.Sel.Name == "Exit" {
						resetExit = true
					}
				}
			}
			return false
		}
		return true
	})
	return
}

// postClearsCatch: inside a deferred func literal of fd, an assignment `<x>.CanCatch = false`
// occurs before the range over the postTransforms.
func postClearsCatch(f *ast.File, name string) bool {
	var fd *ast.FuncDecl
	for _, d := range f.Decls {
		if x, ok := d.(*ast.FuncDecl); ok && x.Name.Name == name {
			fd = x
		}
	}
	if fd == nil {
		return false
	}
	res := false
	ast.Inspect(fd.Body, func(n ast.Node) bool {
		ds, ok := n.(*ast.DeferStmt)
		if !ok {
			return true
		}
		fl, ok := ds.Call.Fun.(*ast.FuncLit)
		if !ok {
			return true
		}
		cleared := false
		ast.Inspect(fl.Body, func(m ast.Node) bool {
			switch s := m.(type) {
			case *ast.AssignStmt:
				if len(s.Lhs) == 1 && len(s.Rhs) == 1 {
					if sel, ok := s.Lhs[0].(*ast.SelectorExpr); ok && sel.Sel.Name == "CanCatch" {
						if id, ok := s.Rhs[0].(*ast.Ident); ok && id.Name == "false" {
							cleared = true
						}
					}
				}
			case *ast.RangeStmt:
				if strings.Contains(strings.ToLower(exprString(s.X)), "posttransforms") {
					if cleared {
						res = true
					}
					return false
				}
			}
			return true
		})
		return false
	})
	return res
}

// ctorAssigns: fields of the local pooled object (the variable initialised from `<Pool>.Get()`) that
// the function assigns.
func ctorAssigns(fd *ast.FuncDecl) []string {
	if fd == nil {
		return nil
	}
	obj := ""
	set := map[string]bool{}
	ast.Inspect(fd.Body, func(n ast.Node) bool {
		as, ok := n.(*ast.AssignStmt)
		if !ok || len(as.Lhs) != 1 || len(as.Rhs) != 1 {
			return true
		}
		if id, ok := as.Lhs[0].(*ast.Ident); ok && as.Tok == token.DEFINE {
			if strings.Contains(exprString(as.Rhs[0]), "Pool.Get(...)") || strings.Contains(exprString(as.Rhs[0]), "Get(...)") {
				obj = id.Name
			}
			return true
		}
		if sel, ok := as.Lhs[0].(*ast.SelectorExpr); ok {
			if id, ok := sel.X.(*ast.Ident); ok && id.Name == obj && obj != "" {
				set[sel.Sel.Name] = true
			}
		}
		// `*pb = (*pb)[:1]`
		if st, ok := as.Lhs[0].(*ast.StarExpr); ok {
			if id, ok := st.X.(*ast.Ident); ok && id.Name == obj {
				set["*="+exprString(as.Rhs[0])] = true
				if se, ok := as.Rhs[0].(*ast.SliceExpr); ok && se.Low == nil {
					if bl, ok := se.High.(*ast.BasicLit); ok {
						set["reslice[:"+bl.Value+"]"] = true
					}
				}
			}
		}
		return true
	})
	out := []string{}
	for k := range set {
		out = append(out, k)
	}
	sort.Strings(out)
	return out
}

func structFields(f *ast.File, name string) []string {
	var out []string
	for _, d := range f.Decls {
		gd, ok := d.(*ast.GenDecl)
		if !ok {
			continue
		}
		for _, sp := range gd.Specs {
			ts, ok := sp.(*ast.TypeSpec)
			if !ok || ts.Name.Name != name {
				continue
			}
			st, ok := ts.Type.(*ast.StructType)
			if !ok {
				continue
			}
			for _, fl := range st.Fields.List {
				if len(fl.Names) == 0 {
					// an embedded field is assigned under its type's name
					out = append(out, strings.TrimPrefix(exprString(fl.Type), "*"))
				}
				for _, n := range fl.Names {
					out = append(out, n.Name)
				}
			}
		}
	}
	return out
}

// closureWrites lists assignments / inc-dec inside function literals whose target is rooted at a name the
// literal does not declare itself: a captured variable of the enclosing function or a package-level
// variable. Test, transform and option closures built at schema-declaration time run on every call, from
// any goroutine; state they write is shared between calls.
func closureWrites(fset *token.FileSet, files map[string]*ast.File) []string {
	var out []string
	root := func(e ast.Expr) string {
		for {
			switch x := e.(type) {
			case *ast.SelectorExpr:
				e = x.X
			case *ast.IndexExpr:
				e = x.X
			case *ast.StarExpr:
				e = x.X
			case *ast.ParenExpr:
				e = x.X
			case *ast.Ident:
				return x.Name
			default:
				return ""
			}
		}
	}
	for fname, f := range files {
		if f == nil {
			continue
		}
		for _, d := range f.Decls {
			fd, ok := d.(*ast.FuncDecl)
			if !ok || fd.Body == nil {
				continue
			}
			// literals called on the spot (func(){...}(), defer func(){...}()) run inside the enclosing call
			// and do not outlive it: their writes are the enclosing function's own
			immediate := map[*ast.FuncLit]bool{}
			ast.Inspect(fd.Body, func(n ast.Node) bool {
				if call, ok := n.(*ast.CallExpr); ok {
					if lit, ok := call.Fun.(*ast.FuncLit); ok {
						immediate[lit] = true
					}
				}
				return true
			})
			ast.Inspect(fd.Body, func(n ast.Node) bool {
				lit, ok := n.(*ast.FuncLit)
				if !ok {
					return true
				}
				if immediate[lit] {
					return true
				}
				own := map[string]bool{"_": true}
				addFields := func(fl *ast.FieldList) {
					if fl == nil {
						return
					}
					for _, fld := range fl.List {
						for _, nm := range fld.Names {
							own[nm.Name] = true
						}
					}
				}
				ast.Inspect(lit, func(m ast.Node) bool {
					switch s := m.(type) {
					case *ast.FuncLit:
						addFields(s.Type.Params)
						addFields(s.Type.Results)
					case *ast.AssignStmt:
						if s.Tok == token.DEFINE {
							for _, l := range s.Lhs {
								if id, ok := l.(*ast.Ident); ok {
									own[id.Name] = true
								}
							}
						}
					case *ast.RangeStmt:
						if s.Tok == token.DEFINE {
							if id, ok := s.Key.(*ast.Ident); ok {
								own[id.Name] = true
							}
							if id, ok := s.Value.(*ast.Ident); ok {
								own[id.Name] = true
							}
						}
					case *ast.ValueSpec:
						for _, nm := range s.Names {
							own[nm.Name] = true
						}
					case *ast.TypeSwitchStmt:
						if as, ok := s.Assign.(*ast.AssignStmt); ok {
							for _, l := range as.Lhs {
								if id, ok := l.(*ast.Ident); ok {
									own[id.Name] = true
								}
							}
						}
					}
					return true
				})
				ast.Inspect(lit.Body, func(m ast.Node) bool {
					switch s := m.(type) {
					case *ast.AssignStmt:
						if s.Tok == token.DEFINE {
							return true
						}
						for _, l := range s.Lhs {
							if r := root(l); r != "" && !own[r] {
								out = append(out, fmt.Sprintf("%s:%s: %s", filepath.Base(fname), fd.Name.Name, exprString(l)))
							}
						}
					case *ast.IncDecStmt:
						if r := root(s.X); r != "" && !own[r] {
							out = append(out, fmt.Sprintf("%s:%s: %s", filepath.Base(fname), fd.Name.Name, exprString(s.X)))
						}
					}
					return true
				})
				return false
			})
		}
	}
	sort.Strings(out)
	return out
}

// receiverWrites lists assignments / inc-dec whose target is rooted at the method receiver or at a
// package-level variable, inside the named methods of every schema file.
// helperOperandWrites: in the schema-deriving helpers (every method of struct_helpers.go: Pick, Omit, Extend,
// Merge and what they are made of) an assignment / inc-dec whose target is a FIELD or ELEMENT reached from the
// receiver, from a parameter or from a range variable over a parameter — the helpers build new schemas and only
// read their operands.
func helperOperandWrites(fset *token.FileSet, f *ast.File) []string {
	var out []string
	if f == nil {
		return []string{"struct_helpers.go: missing"}
	}
	rootOf := func(e ast.Expr) (string, bool) {
		deref := false
		for {
			switch x := e.(type) {
			case *ast.SelectorExpr:
				e, deref = x.X, true
			case *ast.IndexExpr:
				e, deref = x.X, true
			case *ast.StarExpr:
				e, deref = x.X, true
			case *ast.ParenExpr:
				e = x.X
			case *ast.Ident:
				return x.Name, deref
			default:
				return "", false
			}
		}
	}
	for _, d := range f.Decls {
		fd, ok := d.(*ast.FuncDecl)
		if !ok || fd.Body == nil {
			continue
		}
		operands := map[string]bool{}
		if fd.Recv != nil {
			for _, fl := range fd.Recv.List {
				for _, n := range fl.Names {
					operands[n.Name] = true
				}
			}
		}
		for _, fl := range fd.Type.Params.List {
			for _, n := range fl.Names {
				operands[n.Name] = true
			}
		}
		// range variables over an operand, and plain aliases of one (`s := other`)
		for changed := true; changed; {
			changed = false
			ast.Inspect(fd.Body, func(n ast.Node) bool {
				switch x := n.(type) {
				case *ast.RangeStmt:
					if r, _ := rootOf(x.X); operands[r] {
						if id, ok := x.Value.(*ast.Ident); ok && !operands[id.Name] && id.Name != "_" {
							operands[id.Name], changed = true, true
						}
					}
				case *ast.AssignStmt:
					if x.Tok == token.DEFINE && len(x.Lhs) == len(x.Rhs) {
						for i, l := range x.Lhs {
							id, ok := l.(*ast.Ident)
							if rid, ok2 := x.Rhs[i].(*ast.Ident); ok && ok2 && operands[rid.Name] && !operands[id.Name] {
								operands[id.Name], changed = true, true
							}
						}
					}
				}
				return true
			})
		}
		note := func(e ast.Expr) {
			if r, deref := rootOf(e); deref && operands[r] {
				out = append(out, fd.Name.Name+": "+exprString(e))
			}
		}
		ast.Inspect(fd.Body, func(n ast.Node) bool {
			switch x := n.(type) {
			case *ast.AssignStmt:
				for _, l := range x.Lhs {
					note(l)
				}
			case *ast.IncDecStmt:
				note(x.X)
			}
			return true
		})
	}
	sort.Strings(out)
	return out
}

func receiverWrites(fset *token.FileSet, files map[string]*ast.File) []string {
	var out []string
	methods := map[string]bool{"process": true, "validate": true, "Parse": true, "Validate": true}
	// ... and every function or method of these files REACHABLE from them (call graph by name): a helper
	// called from process/validate that fills a cache on the schema object is a write by the execution
	calls := map[string]map[string]bool{}
	defined := map[string]bool{}
	for _, f := range files {
		for _, d := range f.Decls {
			fd, ok := d.(*ast.FuncDecl)
			if !ok || fd.Body == nil {
				continue
			}
			defined[fd.Name.Name] = true
			if calls[fd.Name.Name] == nil {
				calls[fd.Name.Name] = map[string]bool{}
			}
			recvName := ""
			if fd.Recv != nil && len(fd.Recv.List) > 0 && len(fd.Recv.List[0].Names) > 0 {
				recvName = fd.Recv.List[0].Names[0].Name
			}
			rootOf := func(e ast.Expr) string {
				for {
					switch x := e.(type) {
					case *ast.SelectorExpr:
						e = x.X
					case *ast.IndexExpr:
						e = x.X
					case *ast.StarExpr:
						e = x.X
					case *ast.ParenExpr:
						e = x.X
					case *ast.Ident:
						return x.Name
					default:
						return ""
					}
				}
			}
			ast.Inspect(fd.Body, func(n ast.Node) bool {
				if c, ok := n.(*ast.CallExpr); ok {
					switch fn := c.Fun.(type) {
					case *ast.Ident:
						calls[fd.Name.Name][fn.Name] = true
					case *ast.SelectorExpr:
						// only calls on the receiver (v.helper(), v.schema.process()): a method of the same name
						// on some other value (reflect's Len, Set, ...) is not a call of this package's method
						if recvName != "" && rootOf(fn.X) == recvName {
							calls[fd.Name.Name][fn.Sel.Name] = true
						}
					case *ast.IndexExpr: // generic instantiation f[T](...)
						if id, ok := fn.X.(*ast.Ident); ok {
							calls[fd.Name.Name][id.Name] = true
						}
					}
				}
				return true
			})
		}
	}
	reach := map[string]bool{"primitiveProcessor": true, "primitiveValidator": true}
	for m := range methods {
		reach[m] = true
	}
	for changed := true; changed; {
		changed = false
		for fn := range reach {
			for callee := range calls[fn] {
				if defined[callee] && !reach[callee] {
					reach[callee] = true
					changed = true
				}
			}
		}
	}
	// calls that mutate a field in place (sync/atomic values, sync.Map, sync.Once)
	mutators := map[string]bool{"Store": true, "Swap": true, "CompareAndSwap": true, "LoadOrStore": true, "LoadAndDelete": true, "Delete": true, "Add": true, "Do": true, "Clear": true}
	for fname, f := range files {
		pkgVars := map[string]bool{}
		for _, d := range f.Decls {
			if gd, ok := d.(*ast.GenDecl); ok && gd.Tok == token.VAR {
				for _, sp := range gd.Specs {
					for _, n := range sp.(*ast.ValueSpec).Names {
						pkgVars[n.Name] = true
					}
				}
			}
		}
		for _, d := range f.Decls {
			fd, ok := d.(*ast.FuncDecl)
			if !ok || fd.Body == nil {
				continue
			}
			isMethod := fd.Recv != nil && methods[fd.Name.Name]
			isPrim := fd.Name.Name == "primitiveProcessor" || fd.Name.Name == "primitiveValidator"
			if !isMethod && !isPrim && !(reach[fd.Name.Name] && !methods[fd.Name.Name]) {
				continue
			}
			recv := ""
			if fd.Recv != nil && len(fd.Recv.List) > 0 && len(fd.Recv.List[0].Names) > 0 {
				recv = fd.Recv.List[0].Names[0].Name
			}
			// locals shadowing
			root := func(e ast.Expr) string {
				for {
					switch x := e.(type) {
					case *ast.SelectorExpr:
						e = x.X
					case *ast.IndexExpr:
						e = x.X
					case *ast.StarExpr:
						e = x.X
					case *ast.ParenExpr:
						e = x.X
					case *ast.Ident:
						return x.Name
					default:
						return ""
					}
				}
			}
			locals := map[string]bool{}
			ast.Inspect(fd.Body, func(n ast.Node) bool {
				switch s := n.(type) {
				case *ast.AssignStmt:
					if s.Tok == token.DEFINE {
						for _, l := range s.Lhs {
							if id, ok := l.(*ast.Ident); ok {
								locals[id.Name] = true
							}
						}
						return true
					}
					for _, l := range s.Lhs {
						if _, isIdent := l.(*ast.Ident); isIdent && locals[root(l)] {
							continue
						}
						r := root(l)
						if (r != "" && r == recv) || (pkgVars[r] && !locals[r]) {
							out = append(out, fmt.Sprintf("%s:%s: %s", filepath.Base(fname), fd.Name.Name, exprString(l)))
						}
					}
				case *ast.IncDecStmt:
					r := root(s.X)
					if (r != "" && r == recv) || (pkgVars[r] && !locals[r]) {
						out = append(out, fmt.Sprintf("%s:%s: %s", filepath.Base(fname), fd.Name.Name, exprString(s.X)))
					}
				case *ast.CallExpr:
					// recv.field.Store(...), pkgVar.Store(...): in-place mutation through a method
					if sel, ok := s.Fun.(*ast.SelectorExpr); ok && mutators[sel.Sel.Name] {
						if _, direct := sel.X.(*ast.Ident); !direct { // recv.Store(...) would be a method of the schema itself
							r := root(sel.X)
							if (r != "" && r == recv) || (pkgVars[r] && !locals[r]) {
								out = append(out, fmt.Sprintf("%s:%s: %s.%s()", filepath.Base(fname), fd.Name.Name, exprString(sel.X), sel.Sel.Name))
							}
						}
					}
				case *ast.RangeStmt:
					if s.Tok == token.DEFINE {
						if id, ok := s.Key.(*ast.Ident); ok {
							locals[id.Name] = true
						}
						if id, ok := s.Value.(*ast.Ident); ok {
							locals[id.Name] = true
						}
					}
				}
				return true
			})
		}
	}
	sort.Strings(out)
	return out
}

// firstArgOfCallsIn returns the first-argument expression of calls `<callee>(arg, ctx)` inside fd,
// where callee's selector name is one of names; restricted to inside/outside the deferred block.
func firstArgs(fd *ast.FuncDecl, inDefer bool, match func(call *ast.CallExpr) bool) []string {
	var out []string
	if fd == nil {
		return out
	}
	var walk func(n ast.Node, inside bool)
	walk = func(n ast.Node, inside bool) {
		ast.Inspect(n, func(m ast.Node) bool {
			if ds, ok := m.(*ast.DeferStmt); ok {
				if fl, ok := ds.Call.Fun.(*ast.FuncLit); ok {
					walk(fl.Body, true)
				}
				return false
			}
			if call, ok := m.(*ast.CallExpr); ok && inside == inDefer && match(call) && len(call.Args) >= 1 {
				out = append(out, exprString(call.Args[0]))
			}
			return true
		})
	}
	walk(fd.Body, false)
	return out
}

func extractFacts(repo string) (*Facts, error) {
	fset := token.NewFileSet()
	files := map[string]*ast.File{}
	for _, name := range []string{"struct.go", "slices.go", "pointers.go", "zogSchema.go", "custom.go", "preprocess.go",
		"string.go", "numbers.go", "boolean.go", "time.go", "internals/contexts.go", "internals/Issues.go", "internals/PathBuilder.go"} {
		f, err := parseFile(fset, filepath.Join(repo, name))
		if err != nil {
			return nil, err
		}
		files[name] = f
	}
	fc := &Facts{Loop: map[string]map[string]bool{}, LoopAssigns: map[string][]string{}, Ctor: map[string][]string{}, TypeFields: map[string][]string{}}
	for _, l := range []struct{ name, file, recv, fn string }{
		{"structParse", "struct.go", "StructSchema", "process"},
		{"structVal", "struct.go", "StructSchema", "validate"},
		{"sliceParse", "slices.go", "SliceSchema", "process"},
		{"sliceVal", "slices.go", "SliceSchema", "validate"},
	} {
		rc, re, as, _ := loopFacts(findFunc(files[l.file], l.recv, l.fn))
		fc.Loop[l.name] = map[string]bool{"resetCatch": rc, "resetExit": re}
		fc.LoopAssigns[l.name] = as
	}
	fc.PrimParsePostClearsCatch = postClearsCatch(files["zogSchema.go"], "primitiveProcessor")
	fc.PrimValPostClearsCatch = postClearsCatch(files["zogSchema.go"], "primitiveValidator")

	ctx := files["internals/contexts.go"]
	iss := files["internals/Issues.go"]
	pb := files["internals/PathBuilder.go"]
	for _, c := range []struct {
		f          *ast.File
		recv, name string
	}{{ctx, "", "NewExecCtx"}, {ctx, "ExecCtx", "NewSchemaCtx"}, {ctx, "ExecCtx", "NewValidateSchemaCtx"},
		{ctx, "SchemaCtx", "IssueFromTest"}, {ctx, "SchemaCtx", "IssueFromCoerce"},
		{iss, "", "NewZogIssue"}, {iss, "", "NewErrsList"}, {iss, "", "NewErrsMap"}, {pb, "", "NewPathBuilder"}} {
		fc.Ctor[c.name] = ctorAssigns(findFunc(c.f, c.recv, c.name))
	}
	fc.TypeFields["ExecCtx"] = structFields(ctx, "ExecCtx")
	fc.TypeFields["SchemaCtx"] = structFields(ctx, "SchemaCtx")
	fc.TypeFields["ZogIssue"] = structFields(iss, "ZogIssue")
	fc.TypeFields["ErrsList"] = structFields(iss, "ErrsList")
	fc.TypeFields["ErrsMap"] = structFields(iss, "ErrsMap")

	schemaFiles := map[string]*ast.File{}
	for _, n := range []string{"struct.go", "slices.go", "pointers.go", "zogSchema.go", "custom.go", "preprocess.go", "string.go", "numbers.go", "boolean.go", "time.go"} {
		schemaFiles[n] = files[n]
	}
	fc.Writes = receiverWrites(fset, schemaFiles)
	if hf, err := parseFile(fset, filepath.Join(repo, "struct_helpers.go")); err == nil {
		fc.HelperOperandWrites = helperOperandWrites(fset, hf)
	} else {
		fc.HelperOperandWrites = []string{"struct_helpers.go: " + err.Error()}
	}
	// every non-test source file of the library packages whose closures run during a call
	closureFiles := map[string]*ast.File{}
	for _, dir := range []string{"", "internals", "conf", "i18n", "zhttp", "zenv", "parsers/zjson"} {
		names, _ := filepath.Glob(filepath.Join(repo, dir, "*.go"))
		for _, full := range names {
			base := filepath.Base(full)
			if strings.HasSuffix(base, "_test.go") || base == "verif_on.go" {
				continue
			}
			f, err := parseFile(fset, full)
			if err != nil {
				return nil, err
			}
			closureFiles[filepath.Join(dir, base)] = f
		}
	}
	fc.ClosureWrites = closureWrites(fset, closureFiles)
	// F-ctx: a SchemaCtx is shared by all children of a struct / slice node, whose loops re-initialise Data, ValPtr,
	// DType, Exit and CanCatch per child (facts above) and whose test loops set Test; Path is pushed and popped.
	// Any OTHER field of SchemaCtx assigned outside the two constructors is state that leaks from one child to the next.
	{
		managed := map[string]bool{"Data": true, "ValPtr": true, "DType": true, "Exit": true, "CanCatch": true, "Test": true, "Path": true, "ExecCtx": true}
		ctxField := map[string]bool{}
		for _, f := range fc.TypeFields["SchemaCtx"] {
			ctxField[f] = true
		}
		for name, f := range closureFiles {
			for _, decl := range f.Decls {
				fd, ok := decl.(*ast.FuncDecl)
				if !ok || fd.Body == nil || fd.Name.Name == "NewSchemaCtx" || fd.Name.Name == "NewValidateSchemaCtx" {
					continue
				}
				// (a helper the constructors share — the function that takes the object from the pool — is a constructor)
				isCtor := false
				ast.Inspect(fd.Body, func(n ast.Node) bool {
					if call, ok := n.(*ast.CallExpr); ok && strings.HasSuffix(exprString(call.Fun), "SchemaCtxPool.Get") {
						isCtor = true
					}
					return true
				})
				if isCtor {
					continue
				}
				ast.Inspect(fd.Body, func(n ast.Node) bool {
					as, ok := n.(*ast.AssignStmt)
					if !ok {
						return true
					}
					for _, l := range as.Lhs {
						if sel, ok := l.(*ast.SelectorExpr); ok && ctxField[sel.Sel.Name] && !managed[sel.Sel.Name] {
							fc.CtxStrayWrites = append(fc.CtxStrayWrites, name+":"+fd.Name.Name+": "+exprString(l))
						}
					}
					return true
				})
			}
		}
		sort.Strings(fc.CtxStrayWrites)
	}
	// F-fmt: the formatter every top-level entry point hands its execution context (NewExecCtx(errs, X))
	{
		seen := map[string]int{}
		for _, f := range closureFiles {
			for _, decl := range f.Decls {
				fd, ok := decl.(*ast.FuncDecl)
				if !ok || fd.Body == nil {
					continue
				}
				// locals of this function assigned exactly once (`fmter := conf.IssueFormatter`)
				assigned := map[string][]string{}
				ast.Inspect(fd.Body, func(n ast.Node) bool {
					if as, ok := n.(*ast.AssignStmt); ok && len(as.Lhs) == len(as.Rhs) {
						for i, l := range as.Lhs {
							if id, ok := l.(*ast.Ident); ok {
								assigned[id.Name] = append(assigned[id.Name], exprString(as.Rhs[i]))
							}
						}
					}
					return true
				})
				ast.Inspect(fd.Body, func(n ast.Node) bool {
					call, ok := n.(*ast.CallExpr)
					if !ok || len(call.Args) != 2 {
						return true
					}
					fn := exprString(call.Fun)
					if fn == "NewExecCtx" || strings.HasSuffix(fn, ".NewExecCtx") {
						arg := exprString(call.Args[1])
						if id, ok := call.Args[1].(*ast.Ident); ok && len(assigned[id.Name]) == 1 {
							arg = assigned[id.Name][0] // the one value the local was given
						}
						seen[arg]++
					}
					return true
				})
			}
		}
		for k := range seen {
			fc.ExecCtxFormatters = append(fc.ExecCtxFormatters, k)
		}
		sort.Strings(fc.ExecCtxFormatters)
		fc.ExecCtxSites = 0
		for _, v := range seen {
			fc.ExecCtxSites += v
		}
	}

	sv := findFunc(files["struct.go"], "StructSchema", "validate")
	isTestCall := func(call *ast.CallExpr) bool {
		sel, ok := call.Fun.(*ast.SelectorExpr)
		return ok && sel.Sel.Name == "Func" && len(call.Args) == 2
	}
	isFnCall := func(call *ast.CallExpr) bool {
		id, ok := call.Fun.(*ast.Ident)
		return ok && id.Name == "fn" && len(call.Args) == 2
	}
	fc.StructValidateTestArg = strings.Join(firstArgs(sv, false, isTestCall), ",")
	fc.StructValidatePostArg = strings.Join(firstArgs(sv, true, isFnCall), ",")
	sp := findFunc(files["struct.go"], "StructSchema", "process")
	fc.StructProcessPostWrap = strings.Join(firstArgs(sp, true, func(call *ast.CallExpr) bool {
		sel, ok := call.Fun.(*ast.SelectorExpr)
		return ok && sel.Sel.Name == "AddIssue"
	}), ",")
	// F-dyn: the guards that keep input data from panicking the glue code (C06)
	srcOf := func(rel string) string {
		b, err := os.ReadFile(filepath.Join(repo, rel))
		if err != nil {
			return ""
		}
		return string(b)
	}
	{
		// struct.go: either no fixed-size key buffer at all, or every use of it is under a length guard
		guarded := true
		for _, fn := range []string{"process", "validate"} {
			fd := findFunc(files["struct.go"], "StructSchema", fn)
			if fd == nil {
				guarded = false
				continue
			}
			ast.Inspect(fd.Body, func(n ast.Node) bool {
				// look for `var b [N]byte`
				ds, ok := n.(*ast.DeclStmt)
				if !ok {
					return true
				}
				gd, ok := ds.Decl.(*ast.GenDecl)
				if !ok {
					return true
				}
				for _, sp := range gd.Specs {
					vs, ok := sp.(*ast.ValueSpec)
					if !ok {
						continue
					}
					if _, isArr := vs.Type.(*ast.ArrayType); isArr {
						// the declaration must sit inside an `if len(key) <= N` block
						pos := fset.Position(ds.Pos()).Offset
						inGuard := false
						ast.Inspect(fd.Body, func(m ast.Node) bool {
							is, ok := m.(*ast.IfStmt)
							if !ok {
								return true
							}
							c := ""
							if be, ok := is.Cond.(*ast.BinaryExpr); ok {
								c = exprString(be.X) + be.Op.String() + exprString(be.Y)
							}
							if strings.Contains(c, "len(...)") && (strings.Contains(c, "<=") || strings.Contains(c, "<")) &&
								fset.Position(is.Body.Pos()).Offset <= pos && pos <= fset.Position(is.Body.End()).Offset {
								inGuard = true
							}
							return true
						})
						if !inGuard {
							guarded = false
						}
					}
				}
				return true
			})
		}
		fc.DynKeyBufGuard = guarded
		st := srcOf("struct.go")
		fc.DynNilProvGuard = strings.Contains(st, "dataProv == nil")
		dp := srcOf("internals/DataProviders.go")
		fc.DynUnexportedGuard = strings.Contains(dp, "CanInterface()")
		fc.DynMapConvert = strings.Contains(dp, "ConvertibleTo(") || !strings.Contains(dp, ".(map[string]")
		pbs := srcOf("internals/PathBuilder.go")
		fc.DynEmptySegGuard = !strings.Contains(pbs, "v[0]") || strings.Contains(pbs, `v == ""`) || strings.Contains(pbs, "len(v) > 0") || strings.Contains(pbs, `v != ""`)
	}

	// F-collect: CollectMap skips the $first entry (that issue is also filed under its own path)
	uf, err := parseFile(fset, filepath.Join(repo, "utils.go"))
	if err != nil {
		return nil, err
	}
	if cm := findFunc(uf, "issueHelpers", "CollectMap"); cm != nil {
		ast.Inspect(cm.Body, func(n ast.Node) bool {
			is, ok := n.(*ast.IfStmt)
			if !ok {
				return true
			}
			cond := exprString(is.Cond)
			if be, ok := is.Cond.(*ast.BinaryExpr); ok {
				cond = exprString(be.X) + be.Op.String() + exprString(be.Y)
			}
			hasContinue := false
			ast.Inspect(is.Body, func(m ast.Node) bool {
				if bs, ok := m.(*ast.BranchStmt); ok && bs.Tok == token.CONTINUE {
					hasContinue = true
				}
				return true
			})
			if hasContinue && (strings.Contains(cond, "ISSUE_KEY_FIRST") || strings.Contains(cond, "$first")) && strings.Contains(cond, "==") {
				fc.CollectMapSkipsFirst = true
			}
			return true
		})
	}

	// F-helpers: the sugar helpers read the messages BEFORE handing the issues to the pool
	{
		var notes []string
		okAll := true
		// functions of utils.go that (transitively) read an issue's Message / hand issues to the pool
		bodies := map[string]*ast.BlockStmt{}
		for _, decl := range uf.Decls {
			if fd, ok := decl.(*ast.FuncDecl); ok && fd.Body != nil {
				bodies[fd.Name.Name] = fd.Body
			}
		}
		reads, frees := map[string]bool{}, map[string]bool{"FreeIssue": true, "Put": true}
		baseOf := func(call *ast.CallExpr) string {
			fn := exprString(call.Fun)
			return fn[strings.LastIndex(fn, ".")+1:]
		}
		for changed := true; changed; {
			changed = false
			for name, body := range bodies {
				if strings.HasSuffix(name, "AndCollect") {
					continue
				}
				r, f := reads[name], frees[name]
				ast.Inspect(body, func(n ast.Node) bool {
					switch x := n.(type) {
					case *ast.SelectorExpr:
						if x.Sel.Name == "Message" {
							r = true
						}
					case *ast.CallExpr:
						b := baseOf(x)
						r = r || reads[b]
						f = f || frees[b]
					}
					return true
				})
				if r != reads[name] || f != frees[name] {
					reads[name], frees[name], changed = r, f, true
				}
			}
		}
		for _, name := range []string{"SanitizeMapAndCollect", "SanitizeListAndCollect"} {
			fd := findFunc(uf, "issueHelpers", name)
			if fd == nil || fd.Body == nil {
				notes = append(notes, name+"=missing")
				okAll = false
				continue
			}
			var firstRead, lastRead, firstFree token.Pos
			// a deferred call runs when the function returns, i.e. after every other statement
			deferred := map[*ast.CallExpr]bool{}
			ast.Inspect(fd.Body, func(n ast.Node) bool {
				if ds, ok := n.(*ast.DeferStmt); ok {
					deferred[ds.Call] = true
				}
				return true
			})
			ast.Inspect(fd.Body, func(n ast.Node) bool {
				call, ok := n.(*ast.CallExpr)
				if !ok {
					return true
				}
				base := baseOf(call)
				switch {
				case reads[base] && !frees[base]:
					if firstRead == token.NoPos {
						firstRead = call.Pos()
					}
					lastRead = call.End()
				case frees[base]:
					pos := call.Pos()
					if deferred[call] {
						pos = fd.Body.End()
					}
					if firstFree == token.NoPos || pos < firstFree {
						firstFree = pos
					}
				}
				return true
			})
			switch {
			case firstRead == token.NoPos || firstFree == token.NoPos:
				notes = append(notes, name+"=shape-not-recognised")
				okAll = false
			case lastRead <= firstFree:
				notes = append(notes, name+"=read-then-free")
			default:
				notes = append(notes, name+"=free-then-read")
				okAll = false
			}
		}
		fc.HelpersReadBeforeFree = okAll
		fc.HelpersShape = strings.Join(notes, " ")
	}

	// F-http: the two switch statements of zhttp.Request
	zf, err := parseFile(fset, filepath.Join(repo, "zhttp/zhttp.go"))
	if err != nil {
		return nil, err
	}
	parserOf := func(stmts []ast.Stmt) string {
		for _, st := range stmts {
			if rs, ok := st.(*ast.ReturnStmt); ok && len(rs.Results) == 1 {
				if call, ok := rs.Results[0].(*ast.CallExpr); ok {
					if sel, ok := call.Fun.(*ast.SelectorExpr); ok {
						return sel.Sel.Name
					}
				}
			}
		}
		return "?"
	}
	for _, d := range zf.Decls {
		fd, ok := d.(*ast.FuncDecl)
		if !ok || fd.Name.Name != "Request" {
			continue
		}
		ast.Inspect(fd.Body, func(n ast.Node) bool {
			sw, ok := n.(*ast.SwitchStmt)
			if !ok {
				if call, ok := n.(*ast.CallExpr); ok {
					if sel, ok := call.Fun.(*ast.SelectorExpr); ok && sel.Sel.Name == "Cut" && len(call.Args) == 2 {
						if bl, ok := call.Args[1].(*ast.BasicLit); ok {
							fc.HTTPCutSep = strings.Trim(bl.Value, "\"")
						}
					}
				}
				return true
			}
			tag := exprString(sw.Tag)
			for _, cc := range sw.Body.List {
				c := cc.(*ast.CaseClause)
				if c.List == nil {
					if tag != "r.Method" {
						fc.HTTPDefault = parserOf(c.Body)
					}
					continue
				}
				for _, e := range c.List {
					if bl, ok := e.(*ast.BasicLit); ok {
						v := strings.Trim(bl.Value, "\"")
						if tag == "r.Method" {
							fc.HTTPMethods = append(fc.HTTPMethods, [2]string{v, parserOf(c.Body)})
						} else {
							fc.HTTPTypes = append(fc.HTTPTypes, [2]string{v, parserOf(c.Body)})
						}
					}
				}
			}
			return true
		})
	}

	// final value of the http tables: the behavioural reading (httpprobe.go); the go/ast reading is kept as a comment
	fc.HTTPAst = fmt.Sprintf("methods=%v types=%v default=%s sep=%q", fc.HTTPMethods, fc.HTTPTypes, fc.HTTPDefault, fc.HTTPCutSep)
	hp := probeHTTP(stringLiterals([]*ast.File{zf}))
	fc.HTTPMethods, fc.HTTPTypes, fc.HTTPDefault, fc.HTTPCutSep, fc.HTTPUniform = hp.Methods, hp.Types, hp.Default, hp.CutSep, hp.Uniform

	// F-clone: does cloneShallow give the new object its own tests / postTransforms backing arrays?
	hf, err := parseFile(fset, filepath.Join(repo, "struct_helpers.go"))
	if err != nil {
		return nil, err
	}
	if cl := findFunc(hf, "StructSchema", "cloneShallow"); cl != nil {
		ast.Inspect(cl.Body, func(n ast.Node) bool {
			kv, ok := n.(*ast.KeyValueExpr)
			if !ok {
				return true
			}
			key, ok := kv.Key.(*ast.Ident)
			if !ok {
				return true
			}
			// sharing shapes: `v.tests`, `v.tests[:]`, `v.tests[a:b]`; anything else (append to nil, slices.Clone,
			// make+copy helper, a 3-index slice) gives an own array or cannot be appended into
			shares := false
			switch e := kv.Value.(type) {
			case *ast.SelectorExpr:
				shares = true
			case *ast.SliceExpr:
				shares = !e.Slice3
			}
			if key.Name == "tests" {
				fc.CloneCopiesTests = !shares
			}
			if key.Name == "postTransforms" {
				fc.CloneCopiesPosts = !shares
			}
			return true
		})
	}
	// pooled constructors, type fields, CollectMap: behavioural reading (poolprobe.go); go/ast reading kept as a comment
	{
		keys := make([]string, 0, len(fc.Ctor))
		for k := range fc.Ctor {
			keys = append(keys, k)
		}
		sort.Strings(keys)
		var sb strings.Builder
		for _, k := range keys {
			fmt.Fprintf(&sb, "%s=%v ", k, fc.Ctor[k])
		}
		fmt.Fprintf(&sb, "collectMapSkipsFirst=%v", fc.CollectMapSkipsFirst)
		fc.PoolAst = sb.String()
		pp := probePools()
		for k, v := range pp.Ctor {
			sort.Strings(v)
			if v == nil {
				v = []string{}
			}
			fc.Ctor[k] = v
		}
		for k, v := range pp.TypeFields {
			fc.TypeFields[k] = v
		}
		fc.CollectMapSkipsFirst = pp.CollectSkipFirst
		fc.PoolNotes = pp.Notes
	}
	// final value of each behavioural fact: the probe. The go/ast reading is kept for the replay file.
	pr := runProbes()
	fc.Probes = pr
	fc.AST = map[string]bool{
		"structParseResetCatch": fc.Loop["structParse"]["resetCatch"], "structParseResetExit": fc.Loop["structParse"]["resetExit"],
		"structValResetCatch": fc.Loop["structVal"]["resetCatch"], "structValResetExit": fc.Loop["structVal"]["resetExit"],
		"sliceParseResetCatch": fc.Loop["sliceParse"]["resetCatch"], "sliceParseResetExit": fc.Loop["sliceParse"]["resetExit"],
		"sliceValResetCatch": fc.Loop["sliceVal"]["resetCatch"], "sliceValResetExit": fc.Loop["sliceVal"]["resetExit"],
		"primParsePostClearsCatch": fc.PrimParsePostClearsCatch, "primValPostClearsCatch": fc.PrimValPostClearsCatch,
		"keyBufGuard": fc.DynKeyBufGuard, "nilProvGuard": fc.DynNilProvGuard, "unexportedGuard": fc.DynUnexportedGuard,
		"emptySegGuard": fc.DynEmptySegGuard, "mapConvert": fc.DynMapConvert, "cloneCopies": fc.CloneCopiesTests && fc.CloneCopiesPosts,
	}
	fc.Loop["structParse"] = map[string]bool{"resetCatch": pr.StructParseResetCatch, "resetExit": pr.StructParseResetExit}
	fc.Loop["structVal"] = map[string]bool{"resetCatch": pr.StructValResetCatch, "resetExit": pr.StructValResetExit}
	fc.Loop["sliceParse"] = map[string]bool{"resetCatch": pr.SliceParseResetCatch, "resetExit": pr.SliceParseResetExit}
	fc.Loop["sliceVal"] = map[string]bool{"resetCatch": pr.SliceValResetCatch, "resetExit": pr.SliceValResetExit}
	fc.PrimParsePostClearsCatch, fc.PrimValPostClearsCatch = pr.PrimParsePostClearsCatch, pr.PrimValPostClearsCatch
	fc.DynKeyBufGuard, fc.DynNilProvGuard, fc.DynUnexportedGuard, fc.DynEmptySegGuard, fc.DynMapConvert =
		pr.KeyBufGuard, pr.NilProvGuard, pr.UnexportedGuard, pr.EmptySegGuard, pr.MapConvert
	fc.DynUnwrapNilGuard, fc.DynEmbeddedNilGuard, fc.DynNilBodyGuard = pr.UnwrapNilGuard, pr.EmbeddedNilGuard, pr.NilBodyGuard
	fc.CloneCopiesTests, fc.CloneCopiesPosts = pr.CloneCopies, pr.CloneCopies
	return fc, nil
}

func b(x bool) string {
	if x {
		return "true"
	}
	return "false"
}

func leanStrList(xs []string) string {
	q := make([]string, len(xs))
	for i, x := range xs {
		q[i] = fmt.Sprintf("%q", x)
	}
	return "[" + strings.Join(q, ", ") + "]"
}

func (f *Facts) lean() string {
	var s strings.Builder
	s.WriteString("-- GENERATED by harness/cmd/extract (go/ast) from /repo's working tree. Do not edit.\nimport Zog.Engine\nimport Zog.Http\nimport Zog.Dyn\nnamespace Zog.Gen\nopen Zog\n\n")
	for _, l := range []string{"structParse", "structVal", "sliceParse", "sliceVal"} {
		fmt.Fprintf(&s, "-- %s loop assigns before the child call: %s\n", l, strings.Join(f.LoopAssigns[l], ", "))
	}
	s.WriteString("-- The behavioural facts below are the outcome of probes run on the compiled working tree (cmd/extract/probes.go).\n")
	astKeys := make([]string, 0, len(f.AST))
	for k := range f.AST {
		astKeys = append(astKeys, k)
	}
	sort.Strings(astKeys)
	for _, k := range astKeys {
		fmt.Fprintf(&s, "-- go/ast shape reading of %s: %v\n", k, f.AST[k])
	}
	fmt.Fprintf(&s, `def facts : Facts := {
  structParseResetCatch := %s, structParseResetExit := %s,
  structValResetCatch := %s, structValResetExit := %s,
  sliceParseResetCatch := %s, sliceParseResetExit := %s,
  sliceValResetCatch := %s, sliceValResetExit := %s,
  primParsePostClearsCatch := %s, primValPostClearsCatch := %s }

`, b(f.Loop["structParse"]["resetCatch"]), b(f.Loop["structParse"]["resetExit"]),
		b(f.Loop["structVal"]["resetCatch"]), b(f.Loop["structVal"]["resetExit"]),
		b(f.Loop["sliceParse"]["resetCatch"]), b(f.Loop["sliceParse"]["resetExit"]),
		b(f.Loop["sliceVal"]["resetCatch"]), b(f.Loop["sliceVal"]["resetExit"]),
		b(f.PrimParsePostClearsCatch), b(f.PrimValPostClearsCatch))
	fmt.Fprintf(&s, "-- go/ast shape reading of the pooled constructors: %s\n", f.PoolAst)
	for _, n := range f.PoolNotes {
		fmt.Fprintf(&s, "-- probe note: %s\n", n)
	}
	names := make([]string, 0, len(f.Ctor))
	for k := range f.Ctor {
		names = append(names, k)
	}
	sort.Strings(names)
	s.WriteString("/-- pooled constructors: the fields each one (re)assigns -/\ndef ctorAssigns : List (String × List String) := [\n")
	for i, k := range names {
		fmt.Fprintf(&s, "  (%q, %s)", k, leanStrList(f.Ctor[k]))
		if i < len(names)-1 {
			s.WriteString(",")
		}
		s.WriteString("\n")
	}
	s.WriteString("]\n\n")
	tn := make([]string, 0, len(f.TypeFields))
	for k := range f.TypeFields {
		tn = append(tn, k)
	}
	sort.Strings(tn)
	s.WriteString("/-- fields of the pooled struct types -/\ndef typeFields : List (String × List String) := [\n")
	for i, k := range tn {
		fmt.Fprintf(&s, "  (%q, %s)", k, leanStrList(f.TypeFields[k]))
		if i < len(tn)-1 {
			s.WriteString(",")
		}
		s.WriteString("\n")
	}
	s.WriteString("]\n\n")
	fmt.Fprintf(&s, "/-- the formatter every top-level entry point hands its execution context: the distinct second arguments of the %d NewExecCtx(errs, X) calls -/\ndef execCtxFormatters : List String := %s\n\n", f.ExecCtxSites, leanStrList(f.ExecCtxFormatters))
	fmt.Fprintf(&s, "/-- Pick / Omit / Extend / Merge (every function of struct_helpers.go): assignments to a field or element reached from the receiver, a parameter or a range variable over one -/\ndef helperOperandWrites : List String := %s\n\n", leanStrList(f.HelperOperandWrites))
	fmt.Fprintf(&s, "/-- assignments (outside the two constructors) to a field of SchemaCtx other than those the struct / slice loops re-initialise per child (Data, ValPtr, DType, Exit, CanCatch), the test loops set (Test) or the path stack (Path): per-node state on a context that all children of a node share -/\ndef ctxStrayWrites : List String := %s\n\n", leanStrList(f.CtxStrayWrites))
	fmt.Fprintf(&s, "/-- writes inside function literals (test / transform / option / coercer closures) to captured or package-level variables -/\ndef closureWrites : List String := %s\n\n", leanStrList(f.ClosureWrites))
	fmt.Fprintf(&s, "/-- writes rooted at a schema receiver or package variable — assignments, inc/dec and in-place mutator calls (Store, Swap, LoadOrStore, Do, ...) on receiver fields — inside process/validate/Parse/Validate and every function of the schema files reachable from them -/\ndef schemaWrites : List String := %s\n\n", leanStrList(f.Writes))
	srcOf := func(p string) string {
		switch p {
		case "Query":
			return ".query"
		case "JSON":
			return ".json"
		case "Form":
			return ".form"
		}
		return ".query /- unrecognised parser " + p + " -/"
	}
	tbl := func(name string, rows [][2]string) {
		fmt.Fprintf(&s, "def %s : List (List Char × Http.Source) := [", name)
		for i, r := range rows {
			if i > 0 {
				s.WriteString(", ")
			}
			fmt.Fprintf(&s, "(%s, %s)", leanChars(r[0]), srcOf(r[1]))
		}
		s.WriteString("]\n")
	}
	fmt.Fprintf(&s, "/-- guards that keep input data from panicking the glue code -/\ndef dynFacts : Dyn.Facts := { keyBufGuard := %s, nilProvGuard := %s, unexportedGuard := %s, emptySegGuard := %s, mapConvert := %s, unwrapNilGuard := %s, embeddedNilGuard := %s, nilBodyGuard := %s }\n\n",
		b(f.DynKeyBufGuard), b(f.DynNilProvGuard), b(f.DynUnexportedGuard), b(f.DynEmptySegGuard), b(f.DynMapConvert), b(f.DynUnwrapNilGuard), b(f.DynEmbeddedNilGuard), b(f.DynNilBodyGuard))
	fmt.Fprintf(&s, "-- go/ast shape reading: %s\n/-- Issues.SanitizeMapAndCollect / SanitizeListAndCollect read the messages (Sanitize*) before they hand the issues to the pool (Collect*) -/\ndef helpersReadBeforeFree : Bool := %s\n\n", f.HelpersShape, b(f.HelpersReadBeforeFree))
	fmt.Fprintf(&s, "/-- Issues.CollectMap skips the `$first` entry, so every issue object is returned to the pool once -/\ndef collectMapSkipsFirst : Bool := %s\n\n", b(f.CollectMapSkipsFirst))
	s.WriteString("/-- zhttp.Request's dispatch, read off a grid of (method, Content-Type) requests sent through the real function with marker parsers -/\n")
	fmt.Fprintf(&s, "-- go/ast shape reading: %s\n", f.HTTPAst)
	tbl("httpMethods", f.HTTPMethods)
	tbl("httpTypes", f.HTTPTypes)
	fmt.Fprintf(&s, "def httpDefault : Http.Source := %s\ndef httpCutSep : List Char := %s\n/-- every probed method without an entry dispatches on the media type alike -/\ndef httpUniform : Bool := %s\n\n", srcOf(f.HTTPDefault), leanChars(f.HTTPCutSep), b(f.HTTPUniform))
	fmt.Fprintf(&s, "/-- cloneShallow (Pick/Omit/Extend) gives the derived schema its own tests and postTransforms arrays -/\ndef cloneCopies : Bool := %s\n\n", b(f.CloneCopiesTests && f.CloneCopiesPosts))
	fmt.Fprintf(&s, "/-- SliceSchema.validate hands the validated value a DEEP copy of a nested Default (behavioural probe) -/\ndef sliceDefaultDeep : Bool := %s\n\n", b(f.Probes.SliceDefaultDeep))
	fmt.Fprintf(&s, "def structValidateTestArg : String := %q\n", f.StructValidateTestArg)
	fmt.Fprintf(&s, "def structValidatePostArg : String := %q\n", f.StructValidatePostArg)
	fmt.Fprintf(&s, "def structProcessPostIssue : String := %q\n", f.StructProcessPostWrap)
	s.WriteString("\nend Zog.Gen\n")
	return s.String()
}

// probeDoc: what each behavioural probe runs (the concrete failing input when a probe is false)
var probeDoc = map[string][2]string{
	"StructParseResetCatch":    {"C01 C02 C04 C05 C09 C12 C13", "Struct{a: String().Required(), b: Int().Catch(1), c: Slice(Int()).Required()}.Parse(map{b: 3}): the required issue of c must be reported on every run (400 runs over the random field orders); it is swallowed when c is visited right after the catching primitive b and an issue already exists"},
	"StructValResetCatch":      {"C01 C02 C04 C05 C09 C12 C13", "the same schema, Validate(&S3{B: 3})"},
	"StructParseResetExit":     {"C01 C02 C05 C09 C12 C13", "Struct{b: Int().GT(5).Catch(9), c: Slice(Int()).Min(0).Max(0)}.Parse(map{b: 1, c: [1]}): the max issue of c must be reported on every run; it is skipped when c is visited after b's catch was triggered"},
	"StructValResetExit":       {"C01 C02 C05 C09 C12 C13", "the same schema, Validate(&S3{B: 1, C: []int{1}})"},
	"SliceParseResetExit":      {"C01 C02 C03 C05 C12", "Slice(Int().GT(5).Catch(99)).Parse([1, 10, 20]) must yield [99 10 20]"},
	"SliceValResetExit":        {"C01 C02 C05 C12 C13", "Slice(Int().GT(5).Catch(99)).Validate(&[]int{1, 10, 20}) must yield [99 10 20]"},
	"SliceParseResetCatch":     {"C02 C05 C12", "Slice(Preprocess(fn, Int().Catch(1))).Parse([\"bad\", \"ok\", \"bad\"]): both failing elements must report their issue"},
	"SliceValResetCatch":       {"C02 C05 C12", "Slice(Preprocess(fn, Int().Catch(1))).Validate(&[]int{-1, 5, -1}): both failing elements must report their issue"},
	"PrimParsePostClearsCatch": {"C12", "Int().Catch(3).PostTransform(fail).Parse(5): the PostTransform error must be reported"},
	"PrimValPostClearsCatch":   {"C12", "Int().Catch(3).PostTransform(fail).Validate(&5): the PostTransform error must be reported"},
	"KeyBufGuard":              {"C06", "a struct schema with a 40-byte key, Parse and Validate: must not panic"},
	"NilProvGuard":             {"C06 C15", "Struct{a: String()}.Parse(zjson.Decode(\"{}\")): must not panic"},
	"UnexportedGuard":          {"C06", "Struct{a: String()}.Parse(struct{ a string }{\"x\"}): must not panic"},
	"EmptySegGuard":            {"C06 C10", "nested field tagged `zog:\"\"` with a failing test: rendering the path must not panic"},
	"MapConvert":               {"C06", "Struct{a: String()}.Parse(namedMap{a: x}) and a map with a named element type: must not panic"},
	"UnwrapNilGuard":           {"C06", "Struct{a: Preprocess(pass-through, String())}.Parse(map{a: (*string)(nil)}) and a pointer to that nil pointer: must not panic"},
	"EmbeddedNilGuard":         {"C06", "Struct{a: String()}.Parse(struct{ *Embedded; B int }{}) (field A promoted through a nil embedded pointer): must not panic"},
	"NilBodyGuard":             {"C06 C15", "Struct{a: String()}.Parse(zjson.Decode(nil)): must not panic"},
	"SliceDefaultDeep":         {"C19 C17 C04 C03", "(also: a schema WITHOUT PostTransforms validated on an empty value must hold a value deeply equal to its Default, for defaults with pointers, structs, maps and interface fields) Slice(Slice(String())).Default([[a b]]).PostTransform(value[0][0] = MUTATED) validated twice on empty values: the second use must still see the default [[a b]]; likewise defaults of type []*int, []Stop{Geo{Tags []string}} (a struct holding a struct that holds a slice), []PStop{Geo *Geo}, []Cell{P *int}, [][]*int, an empty inner slice with spare capacity that the PostTransform appends to, and structs with map fields whose values are slices / pointers — after two uses with an in-place write through the validated value the default as the caller wrote it must be unchanged"},
	"CloneCopies":              {"C16 C01", "base with three tests; A := base.Pick(a).Test(tA); B := base.Omit(a).Test(tB); C := base.Extend({}).Test(tC): running A must run tA and neither tB nor tC (same with PostTransforms)"},
}

func (f *Facts) json() []byte {
	type failed struct {
		Probe    string `json:"probe"`
		Props    string `json:"properties"`
		Scenario string `json:"scenario"`
	}
	var fails []failed
	rv := reflect.ValueOf(f.Probes)
	for i := 0; i < rv.NumField(); i++ {
		name := rv.Type().Field(i).Name
		if !rv.Field(i).Bool() {
			fails = append(fails, failed{name, probeDoc[name][0], probeDoc[name][1]})
		}
	}
	// pooled constructors: a field that still holds the previous user's value after the constructor ran
	dead := map[string]bool{"Test": true, "HasCaught": true} // written before read on every path (see Props/C07)
	for _, ct := range [][2]string{{"NewExecCtx", "ExecCtx"}, {"NewZogIssue", "ZogIssue"}, {"IssueFromTest", "ZogIssue"}, {"IssueFromCoerce", "ZogIssue"},
		{"NewErrsList", "ErrsList"}, {"NewErrsMap", "ErrsMap"}, {"NewSchemaCtx", "SchemaCtx"}, {"NewValidateSchemaCtx", "SchemaCtx"}} {
		have := map[string]bool{}
		for _, a := range f.Ctor[ct[0]] {
			have[a] = true
		}
		for _, fld := range f.TypeFields[ct[1]] {
			if !have[fld] && !dead[fld] {
				fails = append(fails, failed{"Ctor:" + ct[0], "C07 C08 C01 C02 C05 C09 C10 C11 C12 C13", fmt.Sprintf("a %s whose field %s (like every other field) was set to a sentinel by its previous user is returned to the pool with the library's own Free and handed out again by %s: %s still holds the sentinel", ct[1], fld, ct[0], fld)})
			}
		}
	}
	if len(f.Ctor["NewPathBuilder"]) == 0 {
		fails = append(fails, failed{"Ctor:NewPathBuilder", "C07 C08 C10 C01 C02 C05 C09 C11 C12 C13", "a PathBuilder freed while holding the segments [x, [3]] is handed out again by NewPathBuilder: it does not render the empty path (or Push(k) does not render k)"})
	}
	if !f.CollectMapSkipsFirst {
		fails = append(fails, failed{"CollectMap", "C07 C08", "Struct{a: String().Required(), b: String().Required()}.Parse(map{}) then z.Issues.CollectMap(result): the first issue (filed under its path and under $first) is put into the pool twice, so two later acquisitions receive the same object"})
	}
	doc := "methods=[[GET Query] [HEAD Query]] types=[[application/json JSON] [application/x-www-form-urlencoded Form]] default=Query sep=\";\" uniform=true"
	if got := fmt.Sprintf("methods=%v types=%v default=%s sep=%q uniform=%v", f.HTTPMethods, f.HTTPTypes, f.HTTPDefault, f.HTTPCutSep, f.HTTPUniform); got != doc {
		fails = append(fails, failed{"HTTPDispatch", "C15 C10 C14", "zhttp.Request with marker parsers over a grid of (method, Content-Type) requests: observed " + got + "; documented " + doc})
	}
	out, _ := json.MarshalIndent(map[string]any{"facts": f, "failed_probes": fails}, "", " ")
	return out
}
