module verif/harness

go 1.21.0

require github.com/Oudwins/zog v0.0.0

require golang.org/x/exp v0.0.0-20240613232115-7f521ea00fb8 // indirect

replace github.com/Oudwins/zog => /repo
