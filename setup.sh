#!/bin/sh
# Build the framework offline from files on disk: Lean library + driver, Go harness binaries.
set -e
cd "$(dirname "$0")"
exec python3 ./check --setup
