#!/usr/bin/env python3
"""Run checks against a seeded change: apply the patch to /repo, run the given checks (default: all),
restore /repo. Usage: tools/seeded.py <patch.diff> [Cxx ...]   — prints one line per check."""
import json, os, subprocess, sys, time
VERIF = os.path.dirname(os.path.dirname(os.path.abspath(__file__)))
patch = os.path.abspath(sys.argv[1])
props = sys.argv[2:] or [json.loads(l)["id"] for l in open(os.path.join(VERIF, "properties.jsonl"))]
def sh(c, cwd=None):
    return subprocess.run(c, shell=True, cwd=cwd, capture_output=True, text=True)
assert sh("git status --porcelain", "/repo").stdout.strip() == "", "/repo is not clean"
r = sh(f"git apply {patch}", "/repo")
if r.returncode != 0:
    print("patch does not apply:", r.stderr); sys.exit(2)
out = {}
try:
    for p in props:
        t = time.time()
        r = sh(f"./check {p}", VERIF)
        viol = [l for l in r.stdout.splitlines() if l.startswith("VIOLATION")]
        kind = ""
        if viol:
            rp = viol[0].split("replay=")[1].split()[0]
            try:
                kind = json.load(open(rp)).get("kind", "")
            except Exception:
                pass
        out[p] = {"rc": r.returncode, "violations": len(viol), "no_input": any("no-failing-input-found" in v for v in viol), "kind": kind}
        print(f"{p}: rc={r.returncode} violations={len(viol)} kind={kind} {'(no-failing-input-found)' if out[p]['no_input'] else ''} {time.time()-t:.0f}s", flush=True)
finally:
    sh("git checkout -- . && git clean -fdq", "/repo")
    sh("./check --setup", VERIF)
try:
    print(json.dumps(out))
except BrokenPipeError:
    pass
