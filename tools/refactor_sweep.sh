#!/bin/sh
# Apply each behaviour-preserving refactor in tools/refactors/ to /repo, run every quick check, restore /repo.
# A VIOLATION here is a FALSE ALARM of the machinery (the property still holds). Usage: tools/refactor_sweep.sh [glob]
cd "$(dirname "$0")/.." || exit 2
pat=${1:-*}
[ -z "$(git -C /repo status --porcelain)" ] || { echo "/repo not clean"; exit 2; }
for f in tools/refactors/$pat.diff; do
  git -C /repo apply "$PWD/$f" || { echo "REFACTOR $f: does not apply"; continue; }
  ./check --setup >/dev/null 2>&1
  bad=""
  for p in C01 C02 C03 C04 C05 C06 C07 C08 C09 C10 C11 C12 C13 C14 C15 C16 C17 C18 C19 C20; do
    out=$(./check $p 2>&1); rc=$?
    if [ $rc -ne 0 ] || echo "$out" | grep -q '^VIOLATION'; then bad="$bad $p"; echo "$out" | grep '^VIOLATION' | head -2; fi
  done
  echo "REFACTOR $f: false alarms:${bad:- none}"
  git -C /repo checkout -- . && git -C /repo clean -fdq
done
./check --setup >/dev/null 2>&1
echo REFACTOR-SWEEP-DONE
