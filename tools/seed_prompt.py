import sys
sid, pid, avoid = sys.argv[1], sys.argv[2], sys.argv[3]
prop = open(f"/tmp/prop-{pid}.txt").read()
print(f"""You are helping test a verification effort for the Go library Oudwins/zog (a Zod-inspired schema library: it coerces input — maps, HTTP forms, JSON, env — into typed structs and validates them, returning structured issues). Your job is to play the role of a developer who makes a plausible-looking change to the library that silently BREAKS one semantic property while everything still compiles and the existing test suite still passes.

Your private scratch copy of the repository is the git worktree at /tmp/wt-{sid} (work ONLY there; never touch /repo or /verif, and do not read anything under /verif). Go works offline; in every shell call first run:
  export GOFLAGS=-mod=mod GOPROXY=off GOSUMDB=off GOTOOLCHAIN=local
The test suite is `go test -count=1 ./...` run in /tmp/wt-{sid} (413 tests, all passing now).

THE PROPERTY TO BREAK

{prop}

WHAT I WANT

1. Read the relevant code of the library in /tmp/wt-{sid} and devise a REALISTIC change (the kind a maintainer could make in a refactor, an optimisation, a feature addition or a "simplification": caching something, hoisting or reusing an object, reordering steps, dropping a seemingly redundant reset/copy/check, changing a comparison or a boundary, sharing a buffer, using a faster path for a common case ...) that makes the property FALSE for some inputs.
2. The change must need something SPECIFIC to manifest — a particular multi-step sequence of calls, an unusual input shape or value, a particular nesting or combination of schema features, a particular iteration order, a particular interleaving, or two cooperating sites that each look fine alone. It must NOT be something ordinary use would expose at once, and it must not break any of the 413 existing tests. Do not edit, delete or skip existing tests. Keep the patch small (ideally under ~40 changed lines) and confined to non-test library source files.
3. {avoid}
4. Write a demonstration: a Go test file (package `zog`, or `zhttp`/`zenv`/etc. if it must live in that package) named demo_test.go containing one or more tests whose names start with `TestDemo`, which FAIL with your change and PASS on the unchanged tree. The demonstration must check the property as stated (not an implementation detail). If the failure depends on map iteration order or scheduling, loop enough times to make it fail reliably (and say so). If it needs the race detector, say `-race` in the README.
5. Verify all of this yourself in the worktree: `go build ./...` is clean; `go test -count=1 ./...` passes with the change (without your demo file in the tree, and also the demo excluded); the demo fails with the change; revert the change (use `git diff > /tmp/out-{sid}/mine.diff; git checkout -- .` and later `git apply /tmp/out-{sid}/mine.diff` — do NOT use `git stash`: the stash is shared with other worktrees of this repository) and the demo passes without it.

DELIVERABLES — write these files (and nothing else outside the worktree) into /tmp/out-{sid}/ :
  patch.diff     output of `git diff` for the library change only (must apply with `git apply` to a clean checkout at the worktree's HEAD; do NOT include the demo file in it)
  demo_test.go   the demonstration test file (state in a first-line comment which directory/package it belongs in)
  README.md      what the change is and why it looks innocent, exactly which property clause it breaks, what specific circumstances it needs in order to manifest, and the exact commands you ran with their results

Leave the worktree with your change applied or reverted, it does not matter. In your final answer, summarise in a few sentences: the change, what it needs to manifest, and the verification results. If while reading the code you notice that the UNCHANGED library already violates the property on some input, report that separately in the README under a heading 'Side finding' with a reproduction.""")
