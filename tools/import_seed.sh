#!/bin/bash
# import_seed.sh Sxx Cyy : take a sub-agent's deliverables from /tmp/out-Sxx into seeded/Sxx-Cyy, remove its scratch
# worktree, confirm the change in a fresh scratch worktree and run the property's check against it.
set -u
id=$1; p=$2
d=/verif/seeded/$id-$p
mkdir -p $d
cp /tmp/out-$id/patch.diff /tmp/out-$id/demo_test.go /tmp/out-$id/README.md $d/ || exit 2
git -C /repo worktree remove --force /tmp/wt-$id 2>/dev/null; rm -rf /tmp/wt-$id; git -C /repo worktree prune
echo "confirm: $(/verif/tools/confirm_seeded.sh $d)"
python3 /verif/tools/seeded.py $d/patch.diff $p | head -1
