#!/bin/sh
# seeded_sweep.sh [glob] : re-run every kept seeded change against the CURRENT machinery (regression sweep: a
# change that was detected when it was imported must still be detected after generators / oracles were edited).
# For each seeded/Sxx-Cyy: git apply on /repo, ./check Cyy, git checkout. Prints one line per change; MISSED ones
# are listed again at the end.
cd "$(dirname "$0")/.." || exit 2
pat=${1:-S*}
[ -z "$(git -C /repo status --porcelain)" ] || { echo "/repo not clean"; exit 2; }
missed=""
for d in seeded/$pat; do
  [ -f "$d/patch.diff" ] || continue
  id=$(basename "$d"); p=${id#*-}
  out=$(python3 tools/seeded.py "$PWD/$d/patch.diff" "$p" 2>/dev/null | head -1)
  echo "$id $out"
  note=$(python3 -c "import json,sys; print(json.load(open('$d/meta.json')).get('status_on_current_tree','')[:40])" 2>/dev/null)
  [ -n "$note" ] && echo "   ($note...)"
  case "$out" in *"rc=0"*) case "$note" in superseded*) ;; *) missed="$missed $id";; esac;; esac
  [ -z "$(git -C /repo status --porcelain)" ] || { git -C /repo checkout -- . ; git -C /repo clean -fdq; }
done
./check --setup >/dev/null 2>&1
echo "SEEDED-SWEEP-DONE missed:${missed:- none}"
