#!/usr/bin/env python3
"""Rewrites the seeded-change table of DESIGN.md (between the markers) from seeded/*/meta.json."""
import json, glob, os, re
V = os.path.dirname(os.path.dirname(os.path.abspath(__file__)))
rows = []
for m in sorted(glob.glob(os.path.join(V, "seeded", "S*", "meta.json"))):
    d = json.load(open(m))
    det = "; ".join(f"{k}: {v}" for k, v in d["detected_by"].items())
    cell = lambda s: s.replace("|", "/").replace("\n", " ")
    rows.append(f"| {d['id']} | {cell(d['needs_to_manifest'])} | {cell(det)} | {cell(d.get('strengthening', 'no'))} |")
table = "| id | what it needs to manifest | reported by | strengthening needed? |\n|---|---|---|---|\n" + "\n".join(rows) + "\n"
p = os.path.join(V, "DESIGN.md")
s = open(p).read()
a, b = "<!-- seeded-table:begin -->\n", "<!-- seeded-table:end -->\n"
if a in s:
    s = s[:s.index(a) + len(a)] + table + s[s.index(b):]
    open(p, "w").write(s)
    print(f"{len(rows)} rows written")
else:
    print(table)
