#!/bin/bash
# coverage.sh [quick|thorough-lite] : statement coverage of /repo's non-test code by the correspondence streams
# (every stream of every property at its quick size, instrumented with `go build -cover`). Prints the total and the
# functions below 100 %. This is a measure of how much of the code the model/implementation tie actually exercises;
# it is not a check (nothing registered in MANIFEST.json depends on it). Scratch output lives in build/cov (ignored).
set -e
cd "$(dirname "$0")/.."
export GOFLAGS=-mod=mod GOPROXY=off GOSUMDB=off GOTOOLCHAIN=local
COV=$PWD/build/cov; rm -rf $COV; mkdir -p $COV/data
cp /repo/go.sum harness/go.sum
cd harness
PK=$(go list -deps ./cmd/corr | grep Oudwins/zog | tr '\n' ',' | sed 's/,$//')
go build -tags verif -cover -coverpkg=verif/harness/cmd/corr,$PK -o $COV/corr ./cmd/corr
cd ..
GOCOVERDIR=$COV/data python3 - "$COV" <<'PY'
import subprocess, sys, os
sys.path.insert(0, os.getcwd())
from props import PROPS
cov = sys.argv[1]
for pid, cfg in PROPS.items():
    for idx, st in enumerate(cfg["streams"]):
        if st["stream"] == "conc":
            continue
        cmd = [cov + "/corr", "-stream", st["stream"], "-seed", str(1 + 7919 * idx), "-n", str(st["n_quick"]),
               "-driver", os.getcwd() + "/lean/.lake/build/bin/driver", "-out", cov + "/sum.json", "-prop", pid]
        if st.get("variant"):
            cmd += ["-variant", st["variant"]]
        r = subprocess.run(cmd, cwd="harness", capture_output=True, text=True)
        if r.returncode:
            print("stream failed:", pid, st, r.stderr[-300:])
PY
cd harness
go tool covdata textfmt -i=$COV/data -o $COV/cov.txt
go tool cover -func=$COV/cov.txt | grep -v verif/harness | awk '$3+0<100' | sed 's#github.com/Oudwins/zog/##'
echo "uncovered blocks:"
grep -v verif/harness $COV/cov.txt | awk '$NF==0' | sed 's#github.com/Oudwins/zog/##' | sort -t: -k1,1 -k2,2n | awk '{print "  " $1}' | tr '\n' ' '
echo
