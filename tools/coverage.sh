#!/bin/bash
# coverage.sh : statement coverage of /repo's library packages under ALL correspondence streams (quick sizes) and the
# extractor's probes. A diagnostic for generator gaps, not a check: prints the blocks no stream reaches.
# Scratch files live under /tmp/zogcov and are removed at the end.
set -eu
export GOFLAGS=-mod=mod GOPROXY=off GOSUMDB=off GOTOOLCHAIN=local
W=/tmp/zogcov; rm -rf $W; mkdir -p $W/data $W/bin $W/gen
cd /verif/harness; cp /repo/go.sum . 2>/dev/null || true
# the harness packages must be part of -coverpkg, or the binary writes no counters at all
go build -tags verif -cover -coverpkg=./...,github.com/Oudwins/zog/... -o $W/bin/corr ./cmd/corr
go build -tags verif -cover -coverpkg=./...,github.com/Oudwins/zog/... -o $W/bin/extract ./cmd/extract
python3 - <<PY
import sys,os,subprocess
sys.path.insert(0,'/verif')
from props import PROPS
best={}
for pid,p in PROPS.items():
    for st in p.get('streams',[]):
        if st['stream']=='conc': continue
        k=(st['stream'],st.get('variant',''))
        if k not in best or st['n_quick']>best[k][0]: best[k]=(st['n_quick'],pid)
env=dict(os.environ,GOCOVERDIR='$W/data')
for (s,v),(n,pid) in sorted(best.items()):
    cmd=['$W/bin/corr','-stream',s,'-seed','1','-n',str(n),'-driver','/verif/lean/.lake/build/bin/driver','-out','$W/sum.json','-prop',pid]
    if v: cmd+=['-variant',v]
    c=f'/verif/corpus/{s}.cases'
    if os.path.exists(c): cmd+=['-corpus',c]
    r=subprocess.run(cmd,cwd='/verif/harness',env=env,capture_output=True,text=True)
    if r.returncode!=0: print('stream',s,v,'rc',r.returncode)
subprocess.run(['$W/bin/extract','-repo','/repo','-out','$W/gen','-json','$W/facts.json'],cwd='/verif/harness',env=env,capture_output=True,text=True)
PY
go tool covdata percent -i=$W/data | grep Oudwins/zog
go tool covdata textfmt -i=$W/data -o $W/cov.txt
python3 - <<PY
import re,collections
cov=collections.defaultdict(int)
for l in open('$W/cov.txt'):
    m=re.match(r'(.*):(\d+)\.\d+,(\d+)\.\d+ \d+ (\d+)',l)
    if not m or 'Oudwins/zog' not in m.group(1): continue
    cov[(m.group(1).replace('github.com/Oudwins/zog/',''),int(m.group(2)),int(m.group(3)))]+=int(m.group(4))
un=collections.defaultdict(list)
for (f,a,b),c in sorted(cov.items()):
    if c==0: un[f].append(f"{a}-{b}")
for f,bl in un.items(): print("UNCOVERED",f," ".join(bl))
PY
rm -rf $W
