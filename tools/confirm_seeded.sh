#!/bin/bash
# confirm_seeded.sh <out-dir> : in a scratch worktree of /repo, confirm that the change compiles, keeps the
# suite green, and that the demonstration fails with it and passes without it. Prints a JSON line.
set -u
OUT=$1
export GOFLAGS=-mod=mod GOPROXY=off GOSUMDB=off GOTOOLCHAIN=local
WT=$(mktemp -d /tmp/wtconfirm.XXXXXX)
rmdir $WT
git -C /repo worktree add -q --detach $WT HEAD || exit 2
cd $WT
applies=no; builds=no; suite=no; demo_with=unknown; demo_without=unknown
if git apply $OUT/patch.diff 2>/dev/null; then applies=yes; fi
if go build ./... 2>/dev/null; then builds=yes; fi
n=$(go test -count=1 -json ./... 2>/dev/null | grep -c '"Action":"pass","Package":"[^"]*","Test"')
f=$(go test -count=1 -json ./... 2>/dev/null | grep -c '"Action":"fail","Package":"[^"]*","Test"')
if [ "$f" = "0" ] && [ "$n" -ge 413 ]; then suite=yes; fi
DDIR=.
PKG=$(grep -m1 '^package ' $OUT/demo_test.go | awk '{print $2}' | sed 's/_test$//')
case "$PKG" in
  zog) DDIR=. ;;
  zjson) DDIR=./parsers/zjson ;;
  *) if [ -d "./$PKG" ]; then DDIR=./$PKG; fi ;;
esac
RACE=""
if grep -q -- '-race' $OUT/README.md 2>/dev/null; then RACE="-race"; fi
cp $OUT/demo_test.go $DDIR/zz_seeded_demo_test.go
if go test $RACE -count=1 -run 'Demo|TestC[0-9]+|Seed' $DDIR >/tmp/demo_with.log 2>&1; then demo_with=pass; else demo_with=fail; fi
git checkout -q -- . 
if go test $RACE -count=1 -run 'Demo|TestC[0-9]+|Seed' $DDIR >/tmp/demo_without.log 2>&1; then demo_without=pass; else demo_without=fail; fi
cd /
git -C /repo worktree remove --force $WT
echo "{\"applies\":\"$applies\",\"builds\":\"$builds\",\"suite_passes_with_change\":\"$suite\",\"suite_pass_count\":$n,\"demo_with_change\":\"$demo_with\",\"demo_without_change\":\"$demo_without\"}"
