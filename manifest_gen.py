#!/usr/bin/env python3
"""Writes MANIFEST.json from props.py (claimed checks) and properties.jsonl (everything else goes
under not_applicable with its reason)."""
import json, os, sys
sys.path.insert(0, os.path.dirname(os.path.abspath(__file__)))
from props import PROPS

LEVEL = {
 "C01": ("proof", "Lean: refinement theorem Engine.run = Spec.run for all schemas/inputs/modes/visit orders under the regenerated code facts; node law `prim_no_issue_sat` (no issue => every declared test holds on the placed value, Required had a value) and sink monotonicity lifting it to every visit. Tie: S-engine correspondence (real zog vs compiled Lean driver) on the C01 projection.", "§7 C01"),
 "C02": ("proof", "Lean: Spec is the executable definition of 'exactly the violations'; theorems: all failing tests reported once in order with code/path, one required/coerce issue suppressing only the node's own tests, nil map iff no issue; refinement carries them to the mechanism model for every visit order. Tie: S-engine correspondence on (key, code, path, dtype).", "§7 C02"),
 "C03": ("proof", "Lean: documented coercion tables stated outright (bool/int/string/time/slice), slice length preservation, untouched-field frame lemma, coercer selection; numeric exactness is C18. Tie: S-coerce grid (every Go type x representation, exhaustive over the grid) and S-engine destinations.", "§7 C03"),
 "C04": ("proof", "Lean: characterisation of absence in both modes and the Default > Required > Optional decision table for primitives, slices and pointers; lifted to every depth by the refinement theorem. Tie: S-engine correspondence on required/not_nil issues, destination and the tests-ran log.", "§7 C04"),
 "C05": ("proof", "Lean: local catch laws (no issue; destination = catch value exactly on failure, parsed value otherwise) and confinement as compositionality over one-hole contexts, for the engine with flags on the shared child context under the regenerated facts, for all visit orders. Tie: S-engine (catch-biased) correspondence; reverting a loop reset breaks `facts_ok` and yields concrete failing inputs.", "§7 C05"),
 "C07": ("proof", "Lean: constructor completeness by `decide` over the REGENERATED assignment sets (every pooled constructor re-initialises every live field of its type), independence of ALL previous contents (reinit lemma), and the ownership invariant of the issue pool over EVERY history of calls and Collect* hand-backs and every choice sync.Pool may make (induction over the op list); the double free D20 reproduced by the model when CollectMap does not skip $first. Tie: S-pool — probe after planted dirty pool contents and after random call/collect histories vs the same probe on cleared pools, plus pointer-distinctness of returned issues.", "§7 C07"),
 "C08": ("proof", "PARTIAL. Lean: every interleaving of start/acquire/collect steps of any number of concurrent calls is an op list, so the C07 ownership invariant covers it; two running calls hold disjoint pooled objects; schema objects are only read (regenerated go/ast fact); results do not depend on recycled contents. Data-race freedom in the Go-memory-model sense is not expressible in the model: the -race stress stream (32 goroutines on shared schema objects, per-call result comparison) is supporting evidence.", "§7 C08, §11"),
 "C09": ("proof", "Lean: visit order is a permutation of the declared keys for every oracle; engine = spec for every oracle; the FULL statement is proved false by witness (known finding D19), so the claim is partial. Direct oracle: every case re-run 12x with permuted insertion orders on the real code; D19/D25 are reported as KNOWN-FINDING, any other variation is a violation.", "§7 C09"),
 "C10": ("proof", "Lean: for EVERY issue sequence the map built by ErrsMap.Add files each issue exactly once under the key of its path ($root for the empty path) in arrival order and $first holds exactly the first one (invariant by induction); render = documented join grammar; tag priority; IssuePath override; sanitizers. Partial: tag priority below depth 1 is known finding D17. Tie: S-path on the real PathBuilder/ErrsMap/Sanitize helpers + S-engine paths.", "§7 C10"),
 "C11": ("proof", "Lean: catalogue completeness by kernel `decide` over the REGENERATED catalogue (every built-in test dumped from the compiled library) and language tables: non-empty template, every placeholder bound, code and type present — a finite quantifier checked exhaustively; precedence theorems. Tie: S-msg (exhaustive catalogue x 7 formatter levels x test message) and S-engine/fmt.", "§7 C11"),
 "C20": ("proof", "Lean: every built-in predicate's executable model proved equal to an independently stated specification (inclusive len comparisons, order, membership, prefix/suffix/infix, ASCII classes with range form = set form, instants). Partial: Email/UUID regex vs grammar recogniser is validated exhaustively on short strings, not proved. Tie: S-preds (exhaustive boundary grid) on the real tests.", "§7 C20"),
 "C12": ("proof", "Lean: event-log laws (tests once in order with the node's value; PostTransforms in order, prefix up to first error, one issue, gated on no issue, not swallowed by Catch; custom functions) + log refinement. Tie: S-engine correspondence on the full callback log recorded by instrumented callbacks.", "§7 C12"),
 "C13": ("proof", "Lean: node-level agreement of Parse and Validate on present, non-zero values (prim/ptr/custom, same field keys); partial: the whole-tree statement is validated, not proved. Direct oracle: Validate(&v) vs Parse(toMap(v), &fresh) on fully populated values of random schemas on the real code.", "§7 C13"),
 "C15": ("proof", "Lean: the dispatch tables REGENERATED from zhttp.Request's switch statements are the documented ones (`decide`); GET/HEAD read the query for every Content-Type; parameters after ';' are ignored for every media type and parameter string; list/scalar/absent rule of url.Values incl. missing `k[]`; decode-failure contract (one issue, no callback, destination untouched); {} = every field absent. Tie: S-http exhaustive product (9 methods x 14 Content-Types x 9 bodies x 5 queries x {Struct, Ptr(Struct)}) with per-source sentinels.", "§7 C15"),
 "C16": ("proof", "Lean: refinement of a heap machine (schema objects holding Go slice headers into arrays with spare capacity, in-place append, any growth policy, clone behaviour from the regenerated fact) to a pure specification with set semantics — for EVERY program over Struct/Test/Pick/Omit/Extend/Merge, by an ownership invariant carried over the op list; frame corollaries (operands never modified, siblings independent); the sharing clone reproduces defect D14 by `decide`. Tie: S-helpers executes every schema object of random programs on the real code (Tests and PostTransforms).", "§7 C16"),
 "C17": ("proof", "Lean: builder state machine with the isNot flag: Not() locality for every prefix/continuation (negated predicate, flipped code, flag cleared, nothing after it changes), isNot clear after every well-formed chain, last-call-wins for Required/Optional/Default/Catch, tests only appended, coercer selection, `not_` code flip by `decide` on the regenerated catalogue, schema read-only fact. Tie: S-builder (call-by-call real builder vs builder model, executed), S-engine/share (one schema object at several positions vs copies).", "§7 C17"),
 "C18": ("proof", "Lean: exact-arithmetic theorems about the numeric coercers (atoi range, float->int = trunc and in range, NaN/Inf rejected, Int32 range and same number, Float32 never overflows to Inf) incl. the named examples. Tie: S-coerce boundary grid, model = implementation, plus a math/big exact oracle on the real code.", "§7 C18"),
 "C19": ("proof", "Lean: frame lemmas (Validate changes a value only through Default/Catch/PostTransform; slice default copied) and the regenerated fact 'no write to a schema receiver or package variable in process/validate'; partial: Go memory aliasing is not expressible in the value model. Direct oracle: S-alias runs every case twice on one schema object with input snapshots.", "§7 C19"),
}
NOTE = "Trusted: Lean kernel; axioms propext/Classical.choice/Quot.sound only (audited per theorem each run); translator `extract`; correspondence harness + observation hook; the model itself is hand-written and tied to the code only by the correspondence check. See DESIGN.md §8."
TECH = "Lean 4 theorems about a hand-written executable model + differential correspondence check (Go harness vs compiled Lean driver) + regenerated tables/facts"

REASONS = {}
props = [json.loads(l) for l in open(os.path.join(os.path.dirname(__file__) or ".", "properties.jsonl"))]
checks = []
for p in props:
    pid = p["id"]
    if pid in PROPS and pid in LEVEL:
        cat, text, ref = LEVEL[pid]
        checks.append({"property_id": pid, "quick_cmd": f"./check {pid}", "thorough_cmd": f"./check {pid} --tier thorough",
                       "evidence_file": f"/verif/evidence/{pid}.json", "replay_cmd_template": f"./check {pid} --replay {{path}}",
                       "engine": "lean-model+correspondence", "level_claimed": {"category": cat, "text": text, "design_ref": ref},
                       "level_note": NOTE, "technique": TECH})
na = [{"property_id": p["id"], "reason": REASONS.get(p["id"], "check under construction in this session (not a claim that the technique cannot apply)")}
      for p in props if p["id"] not in [c["property_id"] for c in checks]]
hook = "48227e7"
m = {"version": 1, "setup_cmd": "./setup.sh",
     "hooks": {"guard": "verif", "enable": "go build -tags verif (the harness module replaces github.com/Oudwins/zog => /repo)",
               "baseline_off_cmd": "cd /repo && go test -vet=off -count=1 ./...", "source_commits": [hook], "add_only": True},
     "engines": [{"name": "lean-model+correspondence", "path": "/verif/lean (model, theorems, driver), /verif/harness (extract, corr), /verif/check",
                  "serves_properties": [c["property_id"] for c in checks],
                  "kind_free_text": "Lean 4 proofs about an executable model; model tied to /repo's working tree on every run by a regenerating translator and a differential correspondence check"}],
     "checks": checks,
     "notes": "Lean 4 proof family; see DESIGN.md. known_findings.json lists genuine defects recorded rather than repaired (D17, D19, D25) and the 21 repaired ones (fix: commits in /repo).",
     "not_applicable": na}
json.dump(m, open(os.path.join(os.path.dirname(__file__) or ".", "MANIFEST.json"), "w"), indent=1)
print(len(checks), "checks,", len(na), "not_applicable")
