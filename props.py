"""Per-property configuration of ./check: Lean module, property theorems (audited with
#print axioms), correspondence streams with quick/thorough sizes."""

ENGINE_TB = ["modelled, not verified: lean/Zog/Engine.lean mirrors zogSchema.go primitiveProcessor/primitiveValidator, struct.go, slices.go, pointers.go, custom.go (Preprocess schemas are not modelled)",
             "external, assumed: Go map/slice/defer/reflect semantics; user callbacks are functions of their argument"]
ENGINE_ASSUME = ["schemas without Preprocess nodes", "struct destinations have a field for every schema key (otherwise zog panics by design)",
                 "user callbacks do not reach other nodes through captured pointers"]

def eng(nq, nt, variant=""):
    d = {"stream": "engine", "n_quick": nq, "n_thorough": nt}
    if variant:
        d["variant"] = variant
    return d

def st(name, nq, nt, variant=""):
    d = {"stream": name, "n_quick": nq, "n_thorough": nt}
    if variant:
        d["variant"] = variant
    return d

P = "Zog.Props."
COMMON = [P + "facts_ok", P + "engine_is_spec"]
# cross-cutting regenerated facts: obligations of every property whose clauses rely on them
POOLED = [P + "recycled_objects_start_clean", P + "ctx_carries_only_managed_state"]      # nothing survives in recycled contexts / issues / path builders
READONLY = [P + "executions_write_no_schema", P + "closures_are_stateless"]  # schemas and their closures keep no state

PROPS = {
 "C01": {
  "module": "Zog.Props.C01",
  "theorems": READONLY + POOLED + COMMON + [P + "C01." + t for t in ["success_means_valid_spec", "success_means_valid", "success_means_valid_all", "validU_at_prim", "prim_no_issue_sat", "complex_tests_hold", "success_means_every_visit_clean", "visits_only_append", "engine_success_iff"]] + ["Zog.Spec.validU_of_clean", "Zog.Spec.proc_cleanLocal"],
  "streams": [eng(2500, 150000), eng(2000, 100000, "catch"), eng(2500, 100000, "nearsuccess"), eng(2000, 100000, "retype"), st("http", 700, 12000), st("helpers", 600, 20000)],
  "trusted_base": ENGINE_TB, "assumptions": ENGINE_ASSUME,
 },
 "C02": {
  "module": "Zog.Props.C02",
  "theorems": POOLED + COMMON + [P + "C02." + t for t in ["all_failing_tests_reported", "issue_code_and_path", "satisfied_no_issue", "missing_required_one_issue", "uncoercible_one_issue", "slice_uncoercible", "struct_uncoercible", "nil_iff_no_issue", "no_issue_iff_no_violation_spec", "no_issue_iff_no_violation", "no_issue_iff_no_violation_all", "violation_is_reported", "no_violation_at_prim", "engine_reports_spec_issues"]] + ["Zog.Spec.clean_iff", "Zog.Spec.noViolFields_iff", "Zog.Spec.primBody_clean_iff", "Zog.Spec.cleanU_iff"],
  "streams": [eng(3000, 150000), eng(2000, 100000, "catch"), eng(1200, 60000, "deep")],
  "trusted_base": ENGINE_TB, "assumptions": ENGINE_ASSUME,
 },
 "C03": {
  "module": "Zog.Props.C03",
  "theorems": COMMON + [P + "C03." + t for t in ["bool_table", "int_from_string", "string_is_display", "time_table", "slice_table", "slice_length_preserved", "set_leaves_other_fields", "ptr_nil_stays_nil", "coercer_selected", "clean_parse_is_placed", "placed_leaf_present", "placed_leaf_absent", "placed_slice", "placed_ptr_absent", "placed_ptr_present", "placed_struct_frame"]] + ["Zog.Spec.placed_of_clean", "Zog.Spec.destLoop_get_own", "Zog.Spec.sliceLoop_dest"],
  "streams": [st("coerce", 1500, 200000), eng(2000, 100000), eng(2500, 100000, "prepop"), eng(2000, 100000, "api"), eng(2500, 100000, "nearsuccess")],
  "trusted_base": ENGINE_TB + ["external, supplied per case by the harness from the standard library directly: strconv.ParseFloat, time.Parse, fmt %v"],
  "assumptions": ENGINE_ASSUME,
 },
 "C04": {
  "module": "Zog.Props.C04",
  "theorems": COMMON + [P + "C04." + t for t in ["validated_default_is_the_default", "parse_absent_iff", "parse_falsy_present", "blank_iff", "missing_key_nil", "validate_absent_table", "absent_default", "absent_required", "absent_optional", "slice_absent_required", "slice_absent_optional", "slice_validate_empty_required", "ptr_absent_notnil", "ptr_absent_optional", "ptr_present_allocates", "at_every_depth"]],
  "streams": [eng(3000, 150000)],
  "trusted_base": ENGINE_TB, "assumptions": ENGINE_ASSUME,
 },
 "C05": {
  "module": "Zog.Props.C05",
  "theorems": POOLED + COMMON + [P + "C05." + t for t in ["catch_no_issue", "catch_dest", "catch_keeps_good_value", "catch_confined_spec", "catch_confined", "engine_catch_no_issue", "recycled_context_has_no_catch_state"]],
  "streams": [eng(3000, 150000), eng(2000, 100000, "catch")],
  "trusted_base": ENGINE_TB, "assumptions": ENGINE_ASSUME,
 },
 "C06": {
  "module": "Zog.Props.C06",
  "theorems": [P + "C06." + t for t in ["dyn_facts_ok", "long_keys_never_panic", "empty_object_never_panics", "struct_input_never_panics", "any_segment_never_panics", "any_map_never_panics", "any_value_never_panics", "any_preprocess_result_never_panics", "promoted_field_never_panics", "any_body_never_panics"]],
  "streams": [st("dyn", 1500, 100000), st("http", 800, 12000), eng(600, 30000, "deep"), eng(800, 30000)],
  "trusted_base": ["PARTIAL: proved for the modelled glue (key buffer, nil provider, unexported fields, empty path segments, named map types, every dynamic kind) over all inputs; panics inside reflect / the standard library / user callbacks / stack exhaustion cannot be exhibited by the model and are covered only by the S-dyn stream (real code under recover)",
                   "regenerated (go/ast + source shape): Gen.dynFacts — presence of the eight guards in struct.go, internals/DataProviders.go, internals/PathBuilder.go, internals/utils.go (UnwrapPtr), parsers/zjson (behavioural probes of the working tree)",
                   "modelled, not verified: lean/Zog/Dyn.lean"],
  "assumptions": ["schema and destination match each other (a mismatch panics by design)", "acyclic, finite inputs"],
 },
 "C07": {
  "module": "Zog.Props.C07",
  "theorems": [P + "C07.schemas_carry_nothing_over"] + [P + "C07." + t for t in ["constructors_complete", "reinit_independent_of_dirt", "reinit_is_fresh", "skips_first", "acquire_ownedAcc", "acquireMany_ownedAcc", "step_owned", "ownership_invariant"]],
  "streams": [st("pool", 800, 40000), st("alias", 1500, 60000)],
  "trusted_base": ["regenerated (go/ast): Gen.ctorAssigns / Gen.typeFields (which fields every pooled constructor assigns), Gen.collectMapSkipsFirst",
                   "modelled, not verified: lean/Zog/Pool.lean (reinit of recycled records; issue-object identities over call/collect histories)",
                   "assumed: sync.Pool hands an object to one caller at a time; the `Test` field of SchemaCtx is written by every test loop before it is read, `HasCaught` is never read (dead-before-written exemptions)"],
  "assumptions": ["each result is handed back to the pool by its owner only (documented usage of the Collect helpers)"],
 },
 "C08": {
  "module": "Zog.Props.C08",
  "theorems": [P + "C08." + t for t in ["every_interleaving_owned", "flatten_disjoint", "concurrent_calls_hold_disjoint_objects", "shared_schema_only_read", "closures_keep_no_state", "result_independent_of_recycled_contents", "helpers_read_before_free", "helpers_read_only_owned_objects", "free_then_read_reads_pooled_objects"]],
  "streams": [st("conc", 30000, 2000000), st("pool", 300, 10000)],
  "trusted_base": ["PARTIAL: schedule-independence is proved in the ownership / interleaving model (every interleaving of acquire/release steps is an op list covered by the C07 invariant); data-race freedom in the sense of the Go memory model is NOT expressible in the model — the -race stress stream is supporting evidence for the model's assumptions",
                   "regenerated (go/ast): Gen.schemaWrites = [] (no assignment, inc/dec or in-place mutator call — Store, Swap, LoadOrStore, Do, ... — rooted at a schema receiver or package variable inside process/validate/Parse/Validate or any function of the schema files reachable from them)",
                   "regenerated (go/ast): Gen.closureWrites = [] (no function literal of the root, internals or conf packages that outlives its builder assigns to a captured or package-level variable)",
                   "regenerated (go/ast): Gen.helpersReadBeforeFree (in Issues.SanitizeMapAndCollect / SanitizeListAndCollect every Sanitize* call ends before the first Collect* call begins)",
                   "assumed: sync.Pool's own atomicity; conf.IssueFormatter and conf.Coercers are not reassigned while calls are running"],
  "assumptions": ["global configuration (conf.IssueFormatter, conf.Coercers, i18n) is set up before schemas are used concurrently"],
 },
 "C09": {
  "module": "Zog.Props.C09",
  "theorems": READONLY + POOLED + COMMON + [P + "C09." + t for t in ["visit_order_is_permutation", "visit_order_same_length", "visit_order_mem", "engine_is_spec_for_every_order", "single_field_order_independent", "C09_partial_spec", "C09_partial", "success_order_independent", "success_order_independent_all", "full_statement_false", "message_independent_of_param_order"]] + ["Zog.Spec.proc_success_order_indep", "Zog.Spec.fieldLoop_perm_clean"],
  "streams": [st("order", 2500, 60000), eng(2000, 60000), st("msg", 1, 1)],
  "trusted_base": ENGINE_TB, "assumptions": ENGINE_ASSUME,
 },
 "C12": {
  "module": "Zog.Props.C12",
  "theorems": POOLED + COMMON + [P + "C12." + t for t in ["tests_run_once_in_order", "posts_in_order_stop_at_first_error", "post_error_one_issue", "plain_error_issue_at_node_path", "posts_gated_on_no_issue", "posts_run_when_clean", "post_error_not_caught", "custom_called_with_value", "custom_mismatch_no_call", "pre_mismatch_skips", "pre_error_skips", "pre_ok_runs_inner", "pre_validate", "engine_log_is_spec_log", "callbacks_see_their_own_path", "exec_ctx_resets_values", "ctx_get_exactly_passed", "ctx_get_absent_key", "ctx_last_value_wins", "ctx_other_key_untouched", "ctx_without_reset_leaks"]] + ["Zog.Spec.proc_ev", "Zog.CtxVals.get_exactly_passed", P + "C16.merge_tests", P + "C16.merge3_tests", P + "C16.heap_refines_pure"],
  "streams": [eng(3000, 150000), eng(2000, 100000, "catch"), eng(2000, 100000, "pre"), eng(1500, 60000, "api"), st("helpers", 600, 20000)],
  "trusted_base": ENGINE_TB, "assumptions": ENGINE_ASSUME,
 },
 "C13": {
  "module": "Zog.Props.C13",
  "theorems": READONLY + POOLED + COMMON + [P + "C13." + t for t in ["prim_modes_agree", "prim_modes_agree_with_posts", "ptr_modes_agree", "same_field_keys", "custom_modes_agree", "coerce_own_type", "both_modes_refine", "parse_validate_agree_spec", "parse_validate_agree", "parse_validate_same_issue_map", "pres_prim_own"]] + ["Zog.Spec.agree", "Zog.Spec.fieldLoop_agree", "Zog.Spec.sliceLoop_agree"],
  "streams": [st("modes", 3000, 150000), eng(2000, 60000)],
  "trusted_base": ENGINE_TB, "assumptions": ENGINE_ASSUME,
 },
 "C14": {
  "module": "Zog.Props.C14",
  "theorems": COMMON + [P + "C14." + t for t in ["absent_inputs_equivalent_prim", "absent_inputs_equivalent_slice", "absent_inputs_equivalent_ptr", "flat_vs_map_lookup", "key_per_source", "bool_rendering", "string_rendering", "atoi_inverts_itoa", "int_schemas_read_renderings", "whole_record_flat_vs_map", "whole_record_flat_vs_map_engine", "int_rendering_examples", "nested_flat_source_fails", "engine_mirrors", "request_source_as_documented"]] + ["Zog.Spec.flat_and_map_views_agree", "Zog.Spec.viewEq_leaf", "Zog.Spec.fieldLoop_views", "Zog.atoi_toString"],
  "streams": [st("front", 600, 20000), st("http", 800, 12000)],
  "trusted_base": ["PARTIAL: proved for whole FLAT records (`whole_record_flat_vs_map`: every struct schema, record, source tag, visit order and destination; leaves: strings, 64-bit integers via `atoi (toString n) = n`, booleans, repeated values, any leaf whose two presentations its coercer reads alike) between the flat sources (form/query/env) and the map sources (Go map, decoded JSON); that each real front end presents the record as `flatView` / `mapView` describe (encoding/json, net/http, os.Getenv, env trimming) is validated by the S-front stream, not proved; below depth 1 the full statement is false (known finding D17) and the model mirrors the code",
                   "external, taken from the standard library by the harness: encoding/json, net/http ParseForm / URL.Query, os.Getenv"] + ENGINE_TB,
  "assumptions": ENGINE_ASSUME + ["environment variables cannot express lists; env values are trimmed (documented per-source differences)"],
 },
 "C15": {
  "module": "Zog.Props.C15",
  "theorems": [P + "C15." + t for t in ["tables_as_documented", "get_head_read_query", "params_ignored", "body_methods_by_media_type", "repeated_is_list", "single_is_string", "bracket_suffix_is_list", "missing_is_absent", "decode_failure_contract", "empty_object_all_absent"]],
  "streams": [st("http", 2500, 20000)],
  "trusted_base": ["regenerated (go/ast): Gen.httpMethods / Gen.httpTypes / Gen.httpCutSep — the two switch statements of zhttp.Request",
                   "modelled, not verified: lean/Zog/Http.lean mirrors zhttp.Request and urlDataProvider.Get; the decode-failure branch mirrors struct.go process (factory branch)",
                   "external, supplied per case from the standard library directly: net/http ParseForm (body + query merge), encoding/json"] + ENGINE_TB,
  "assumptions": ["only 'parameters are ignored' is demanded of Content-Type handling (not case folding or whitespace before ';')",
                  "a top-level Ptr(Struct) treats the empty JSON object as absent (pinned by the repository's TestTopLevelOptionalStruct)"],
 },
 "C16": {
  "module": "Zog.Props.C16",
  "theorems": READONLY + [P + "C16." + t for t in ["clone_copies", "helpers_write_no_operand", "heap_refines_pure", "pure_step_frame", "heap_step_frame", "pick_fields", "omit_fields", "union_fields", "merge_tests", "union_assoc", "merge3_tests"]],
  "streams": [st("helpers", 1500, 100000), st("conc", 8000, 300000)],
  "trusted_base": ["modelled, not verified: lean/Zog/Helpers.lean mirrors struct_helpers.go (cloneShallow/Pick/Omit/Extend/Merge) and StructSchema.Test/PostTransform with Go slice semantics (in-place append while len < cap, arbitrary growth policy)",
                   "regenerated (go/ast): Gen.cloneCopies — cloneShallow gives the derived schema its own tests/postTransforms arrays",
                   "the model carries one appended list per object; Tests and PostTransforms share the code shape and are both exercised by the stream"],
  "assumptions": ["Pick is given keys that exist in its operand (a missing key stores a nil schema in the real code and panics at execution: outside the selection semantics)"],
 },
 "C17": {
  "module": "Zog.Props.C17",
  "theorems": [P + "C17." + t for t in ["not_is_local", "negated_test_semantics", "plain_test_unchanged", "wellformed_isNot_clear", "required_last_wins", "optional_last_wins", "default_last_wins", "catch_last_wins", "tests_only_appended", "modifier_leaves_tests", "coercer_is_the_given_one", "not_codes_flip", "shared_schema_is_read_only", "shared_default_is_copied"]],
  "streams": [st("builder", 3000, 150000), eng(2000, 80000, "share"), eng(1500, 60000, "api"), st("preds", 500, 20000)],
  "trusted_base": ["modelled, not verified: lean/Zog/Builder.lean mirrors string.go addTest/Not and the Required/Optional/Default/Catch setters of every primitive schema",
                   "regenerated: Gen.notPairs (codes of every negatable string test, dumped from the compiled library), Gen.schemaWrites (go/ast)"] + ENGINE_TB,
  "assumptions": ["well-typed fluent chains: after Not() only NotStringSchema methods are callable; discarding Not()'s result and calling another method is outside the property"],
 },
 "C18": {
  "module": "Zog.Props.C18",
  "theorems": [P + "C18." + t for t in ["int_identity", "atoi_in_range", "nan_inf_rejected", "float_to_int_exact", "int32_in_range", "int32_same_number", "float32_no_overflow", "named_examples"]],
  "streams": [st("coerce", 2000, 400000)],
  "trusted_base": ["modelled, not verified: lean/Zog/Coerce.lean mirrors conf/Coercers.go DefaultCoercers.Int/Float64 and the Int32/Int64/Float32 adapters of numbers.go",
                   "external: strconv.ParseFloat (supplied per case from the standard library); float32(x)/float64(n) hardware conversions have executable models (toF32, ofInt) validated by the stream"],
  "assumptions": ["64-bit platform (Go int = int64)"],
 },
 "C10": {
  "module": "Zog.Props.C10",
  "theorems": POOLED + [P + "C10." + t for t in ["get_append", "inv_add", "issue_map_well_formed", "root_key", "nonroot_key", "render_is_joinSpec", "key_source_tag_first", "tagName_plain", "tagName_no_comma", "tagName_idem", "key_source_tag_without_name", "key_zog_tag_next", "key_schema_key_last", "key_validate", "issue_path_override", "sanitize_keys", "sanitize_list_length", "sanitize_get", "issues_addressed_at_every_depth", "node_files_below_itself", "request_source_as_documented"]] + ["Zog.Spec.proc_at"],
  "streams": [st("path", 3000, 200000), eng(2500, 100000), eng(1200, 60000, "deep"), eng(300, 6000, "long"), st("front", 400, 10000), st("http", 700, 12000)],
  "trusted_base": ["modelled, not verified: lean/Zog/Path.lean mirrors internals/PathBuilder.go String and internals/Issues.go ErrsMap.Add; keyFor mirrors internals/DataProviders.go GetKeyFromField"] + ENGINE_TB,
  "assumptions": ["no issue is addressed to the reserved key `$first` (IssuePath(\"$first\") is outside the property)"] + ENGINE_ASSUME,
 },
 "C11": {
  "module": "Zog.Props.C11",
  "theorems": POOLED + [P + "C11." + t for t in ["entry_points_start_from_global_formatter", "catalogue_complete_en", "catalogue_complete_es", "catalogue_complete_default", "catalogue_described", "catalogue_well_formed", "user_tests_complete_en", "user_tests_complete_es", "user_tests_complete_default", "user_tests_described", "no_value_placeholder", "test_message_wins", "exec_formatter_next", "global_formatter_last", "issue_of_test_described", "i18n_uses_ctx_lang", "i18n_default_lang", "last_installation_wins", "reinstall_resets_lang_key", "lang_value_not_a_string", "issue_invariants_lift", "every_issue_has_a_message"]] + ["Zog.Spec.proc_inv"],
  "streams": [st("msg", 1, 1), eng(2500, 100000, "fmt"), st("http", 700, 12000)],
  "trusted_base": ["regenerated on every run (run-time dump of the compiled maps and of every built-in test): lean/Zog/Gen/Tables.lean, lean/Zog/Gen/Catalogue.lean",
                   "modelled, not verified: lean/Zog/Msg.lean mirrors conf/issueFormatConf.go NewDefaultFormatter and i18n/i18n.go; strings.ReplaceAll and fmt %v are external"] + ENGINE_TB,
  "assumptions": ["a test's own Message that itself contains {{...}} is the user's text, not an unresolved placeholder"],
 },
 "C20": {
  "module": "Zog.Props.C20",
  "theorems": [P + "C20." + t for t in ["lenMin_spec", "lenMax_spec", "lenEq_spec", "len_spec", "len_boundaries", "cmpInt_spec", "cmp_other_type", "float_specials", "oneOf_spec", "sliceContains_spec", "hasPrefix_spec", "hasSuffix_spec", "contains_spec", "containsUpper_spec", "containsDigit_spec", "special_ranges_are_punct", "containsSpecial_spec", "non_ascii_not_special", "time_zone_ignored", "time_spec", "uuid_pattern_regenerated", "email_pattern_regenerated", "uuid_regex_is_grammar", "email_regex_is_grammar", "email_model_is_grammar", "uuid_length"]] + ["Zog.Rx.reach_iff_word", "Zog.Rx.chain_run", "Zog.Rx.wd_emailBody", "Zog.Rx.anchored_search"],
  "streams": [st("preds", 1500, 60000)],
  "trusted_base": ["modelled, not verified: lean/Zog/Preds.lean mirrors the predicate inside every built-in test (internals/tests.go, string.go, time.go, slices.go)",
                   "external: Go regexp (Email/UUID regex vs the recognisers isEmail/isUUID is validated by the exhaustive stream, not proved), net/url (URL) and user regexps (Match) are compared with the standard library called directly"],
  "assumptions": ["strings are valid UTF-8 (Lean String)"],
 },
 "C19": {
  "module": "Zog.Props.C19",
  "theorems": COMMON + [P + "C19." + t for t in ["no_schema_writes", "validate_prim_frame", "default_copy_is_deep", "default_out_of_reach", "write_frame", "shallow_copy_shares_witness", "slice_default_is_copied"]] + ["Zog.Alias.deepCopy_fresh", "Zog.Alias.deepCopy_shape"],
  "streams": [st("alias", 2500, 100000), eng(1500, 50000), eng(1500, 50000, "prepop"), eng(1500, 50000, "nested"), eng(1500, 50000, "retype"), st("front", 400, 10000)],
  "trusted_base": ENGINE_TB + ["Go memory aliasing is not expressible in the value model: destination/schema sharing is decided by the S-alias stream on the real code (second-run equality, input snapshots) and the go/ast fact schemaWrites = []"],
  "assumptions": ENGINE_ASSUME,
 },
}
