"""Per-property configuration of ./check: Lean module, property theorems (audited with
#print axioms), correspondence streams with quick/thorough sizes."""

ENGINE_TB = ["modelled, not verified: lean/Zog/Engine.lean mirrors zogSchema.go primitiveProcessor/primitiveValidator, struct.go, slices.go, pointers.go, custom.go (Preprocess schemas are not modelled)",
             "external, assumed: Go map/slice/defer/reflect semantics; user callbacks are functions of their argument"]

def eng(nq, nt, variant=""):
    d = {"stream": "engine", "n_quick": nq, "n_thorough": nt}
    if variant:
        d["variant"] = variant
    return d

PROPS = {
 "C05": {
  "module": "Zog.Props.C05",
  "theorems": ["Zog.Props.facts_ok", "Zog.Props.engine_is_spec", "Zog.Props.C05.catch_no_issue", "Zog.Props.C05.catch_dest",
               "Zog.Props.C05.catch_keeps_good_value", "Zog.Props.C05.catch_confined_spec", "Zog.Props.C05.catch_confined",
               "Zog.Props.C05.engine_catch_no_issue"],
  "streams": [eng(3000, 150000), eng(2000, 100000, "catch")],
  "trusted_base": ENGINE_TB,
  "assumptions": ["schemas without Preprocess nodes", "struct destinations have a field for every schema key (otherwise zog panics by design)"],
 },
}
